"""C13 — decoders never panic or hang; truncation and I/O faults surface as errors.
C13.panic, C13.alloc, C13.rec, C13.prog, C13.trunc, C13.read, C13.sink."""
import re

from sa import bounds, core, flow, decision, discipline as D
from . import common, C16, C13_treeid

DEC_ROOTS = (r"^rbx_binary::from_reader$|^rbx_binary::deserializer::Deserializer::<'db>::deserialize$|^rbx_xml::from_reader$|^rbx_xml::from_reader_default$"
             r"|^rbx_xml::from_str$|^rbx_xml::from_str_default$|^rbx_xml::deserializer::decode_internal$|^rbx_types::attributes::Attributes::from_reader$"
             r"|^rbx_types::tags::Tags::decode$|^rbx_types::material_colors::MaterialColors::decode$")
SER_ROOTS = r"^rbx_binary::serializer::Serializer::<'db>::serialize$|^rbx_binary::to_writer$|^rbx_xml::serializer::encode_internal$|^rbx_xml::to_writer$|^rbx_xml::to_writer_default$|^rbx_types::attributes::Attributes::to_writer$"

DS = "rbx_binary::deserializer::state::DeserializerState::<'db, R>::"
BS_CORE = "rbx_binary::core::RbxReadExt::"
XR = "rbx_xml::deserializer_core::XmlEventReader::<R>::"

# (function, kind, fingerprint) -> discharging invariant.  A `*` fingerprint suffix matches by prefix.
DISCHARGED = {
    (DS + "decode_prop_chunk", "unwrap", "unwrap∘self.instances_by_ref.get_mut(referent)"): "PROV:referents — `referent` ranges over type_info.referents, every one of which decode_inst_chunk inserted into instances_by_ref; entries are removed only by finish(self)",
    ("rbx_types::attributes::reader::read_exact_or_none", "index", "tmp[range::RangeFrom{…}]"): "n <= buf.len() by the std::io::Read contract (same reliance as std's read_exact)",
    ("rbx_types::material_colors::MaterialColors::decode", "slice-op", "chunks∘buffer"): "chunk size is the constant 3",
    ("rbx_xml::deserializer::deserialize_properties", "macro:unimplemented", "unimplemented"): "dead wildcard arm over DataType {Value, Enum}: checked below",
    ("<rbx_types::shared_string::SharedString as core::ops::drop::Drop>::drop", "unwrap", "unwrap∘self.data.take()"): "`data` is Some until drop runs (C18.eq: only Drop empties it)",
    ("rbx_types::shared_string::SharedString::data", "unwrap", "unwrap∘self.data.as_ref()"): "as above",
    ("rbx_types::shared_string::SharedString::new", "unwrap", "unwrap∘shared_string::STRING_CACHE.lock()"): "poisoned only if a panic happened inside the critical section (C18.reent: none can)",
    ("rbx_dom_weak::dom::WeakDom::inner_insert", "unwrap", "unwrap∘self.instances.get_mut(referent)"): "the key was inserted by the statement before",
    ("rbx_dom_weak::dom::WeakDom::inner_insert", "unwrap", "unwrap∘UniqueId::now()"): "fails only if the system clock is before 2021 or after 2157 — environment, not input (documented in the source)",
    ("rbx_xml::deserializer::deserialize_root", "macro:unreachable", "unreachable"): "xml-rs always yields StartDocument as the first event of a successful parse (trusted, DESIGN section 7)",
    (XR + "expect_peek", "unwrap", "unwrap_err∘self.expect_next()"): "in the `Some(Err(_))` arm of the peeked value: next() returns that buffered Err",
    (XR + "read_one_characters_event", "unwrap", "*"): "in an arm selected by peek(): next() returns the buffered item of that shape",
    (XR + "read_one_characters_event", "macro:unreachable", "unreachable"): "the peeked event was Characters/CData; next() returns the same buffered event",
    ("rbx_xml::types::cframe::<impl rbx_xml::core::XmlType for rbx_types::basic_types::CFrame>::read_xml", "macro:unreachable", "unreachable"): "TAGS — the loop ranges over the constant TAG_NAMES, every element of which has an arm (checked below)",
}


def lookup(fn, kind, fp):
    d = DISCHARGED.get((fn, kind, fp))
    if d is not None:
        return d
    d = DISCHARGED.get((fn, kind, "*"))
    return d


def reach_sets(prog, g):
    droots = [f.path for f in prog.find_fns(DEC_ROOTS)]
    sroots = [f.path for f in prog.find_fns(SER_ROOTS)]
    if len(droots) < 8 or len(sroots) < 5:
        raise core.AnchorMissing(f"entry points: {droots} {sroots}")
    return droots, g.reach(droots), sroots, g.reach(sroots)


def lib_named(prog, reach):
    for path in sorted(reach):
        fn = prog.fns[path]
        if fn.dk == "Closure" or fn.crate not in core.LIB_CRATES:
            continue
        yield fn


def rule_panic(c, prog, g, dreach):
    R = "C13.panic"
    c.rule(R, "every panic-capable construct (unwrap/expect, panic!/unreachable!/unimplemented!/assert!, indexing, slice ops, integer division) in code reachable from a decoder entry point is enumerated; each must be in the confirmed table with the invariant that discharges it, or it is a violation")
    n = 0
    computed = 0
    treeids = 0
    peeks = 0
    prov = None
    dbdep = 0
    fns_with_sites = 0
    bounds.PROG = prog
    for fn in lib_named(prog, dreach):
        sites = flow.panic_sites(fn)
        # a division by a constant expression that evaluates to a non-zero number cannot fail
        sites = [s_ for s_ in sites if not (s_["kind"] == "div" and (bounds.const_int(s_["node"]["r"]) or 0) != 0)]
        if sites:
            fns_with_sites += 1
        nest = None
        origins = None
        for s in sites:
            n += 1
            if s["kind"] == "unwrap":
                # taking the next element of a local sequence (`q.pop_front()`, `q.pop_back()`, `it.next()`, `v.pop()`):
                # the site is identified by what is taken, not by the container or the end it is taken from
                a0 = core.call_args(s["node"])
                r0 = core.strip(a0[0]) if a0 else {}
                if r0.get("k") == "MethodCall" and r0["m"] in ("pop_front", "pop_back", "pop", "next") and not r0["args"] and core.strip(r0["recv"]).get("res") == "local":
                    ty0 = (core.strip(r0["recv"]).get("ty") or "").replace("&mut ", "")
                    m0 = re.search(r"<([^<>]*)>$", ty0)
                    if m0 and re.search(r"(VecDeque|Vec|IntoIter|Drain)<", ty0):
                        s = dict(s, fp="unwrap∘take(" + m0.group(1).split(",")[0].strip().rsplit("::", 1)[-1] + ")")
            inst = f"{fn.path}|{s['kind']}|{s['fp']}"
            if s["kind"] == "index":
                # computed discharges (sa.bounds): independent of names, loop order and helper structure
                if nest is None:
                    nest = bounds.nest_bounds(fn, lambda root, depth, fn=fn: param_dim(fn, root, depth))
                why_c = bounds.const_index(s) or bounds.enum_index(fn, s) or nest.get(id(s["node"])) or bounds.guarded_index(fn, s) or bounds.chunk_index(fn, s) or bounds.str_slice_guarded(fn, s)
                if why_c:
                    computed += 1
                    c.ok(R, inst)
                    continue
            if fn.crate == "rbx_reflection_database":
                # the crate only decodes its own embedded database.msgpack: whether that can fail is a fact about the
                # bundled file and the struct shapes (C16.load / C16.data), not about the decoder's input
                c.ok(R, inst)
                continue
            if fn.crate == "rbx_xml" and is_expect_next_unwrap(s):
                # PEEK — the event was peeked (and is therefore buffered) on every way to this unwrap: directly inside an
                # arm of `match reader.expect_peek()?`, or in a private helper all of whose call sites are
                if peeked_before(prog, fn, s["node"]):
                    peeks += 1
                    c.ok(R, inst)
                else:
                    c.violation(R, f"{fn.path}|{s['kind']}|{s['fp']}|no-peek", f"{fn.path}: `{s['fp']}` is not inside an arm of `match reader.expect_peek()?` (nor in a helper only called from such arms); without a buffered event expect_next can fail (EOF / XML error) and the unwrap panics", core.loc(s["node"]), instance=inst)
                continue
            key_expr = C13_treeid.is_tree_lookup(s) if fn.crate == "rbx_xml" else None
            if key_expr is not None:
                # the XML reader's own tree: ids of instances this decode inserted, never removed
                if prov is None:
                    prov = C13_treeid.Provenance(prog)
                if C13_treeid.no_removals(prog, g, dreach) and prov.accepted(fn, key_expr):
                    treeids += 1
                    c.ok(R, inst)
                    continue
            if C16.is_lookup_fn(prog, fn):
                # descriptor lookups: discharged by the database obligation the key's provenance names (C16.oblig / C16.data)
                if origins is None:
                    origins = core.binding_origins(fn)
                if C16.classify_site(prog, fn, s, origins) is not None:
                    dbdep += 1
                    c.ok(R, inst)
                    continue
            if fn.crate == "rbx_binary" and is_instances_by_ref_unwrap(s) and provenance_referents(fn, s["node"], prog):
                # PROV:referents, computed: the key ranges over a TypeInfo's referents — directly, or through a slice
                # parameter that every call site fills from one — each of which decode_inst_chunk inserted
                c.ok(R, inst)
                continue
            why = lookup(fn.path, s["kind"], s["fp"])
            if why is None:
                pth = g.path_to(dreach, fn.path)
                c.violation(R, f"{fn.path}|{s['kind']}|{s['fp']}", f"{fn.path}: `{s['fp']}` ({s['kind']}) can panic on input-controlled data and has no discharging invariant; reachable via {' -> '.join(core.short(p) for p in pth[-4:])}", core.loc(s["node"]), instance=inst)
                continue
            if why.startswith("PROV:referents"):
                if provenance_referents(fn, s["node"]):
                    c.ok(R, inst)
                else:
                    c.violation(R, f"{fn.path}|{s['kind']}|{s['fp']}|provenance", f"{fn.path}: `{s['fp']}` — the looked-up key is not bound by a loop over type_info.referents, so the INST invariant does not cover it", core.loc(s["node"]), instance=inst)
            elif why.startswith("PEEK"):
                if inside_peek_match(fn, s["node"]):
                    c.ok(R, inst)
                else:
                    c.violation(R, f"{fn.path}|{s['kind']}|{s['fp']}|no-peek", f"{fn.path}: `{s['fp']}` is not inside an arm of `match reader.expect_peek()?`; without a buffered event expect_next can fail (EOF / XML error) and the unwrap panics", core.loc(s["node"]), instance=inst)
            elif why.startswith("TAGS"):
                if cframe_tags_covered(prog, fn):
                    c.ok(R, inst)
                else:
                    c.violation(R, f"{fn.path}|tags", "CFrame::read_xml: an element of TAG_NAMES has no match arm, so the `unreachable!()` arm is reachable", core.loc(s["node"]), instance=inst)
            else:
                c.ok(R, inst)
    c.floor(R, n, 80, "panic-capable sites reachable from decoders")
    c.floor(R, computed, 3, "index sites discharged by a computed bound (sa.bounds)")
    c.floor(R, dbdep, 5, "descriptor-lookup sites discharged by a database obligation")
    c.floor(R, treeids, 3, "XML tree lookups discharged by inserted-id provenance")
    c.floor(R, peeks, 1, "expect_next().unwrap() sites discharged by a preceding peek")
    c.analysed["decoder_reachable_functions"] = len(dreach)
    c.sample({"rule": R, "sites": n, "functions_with_sites": fns_with_sites, "example_discharge": {"site": DS + "decode_prop_chunk | unwrap∘self.instances_by_ref.get_mut(referent)", "invariant": DISCHARGED[(DS + "decode_prop_chunk", "unwrap", "unwrap∘self.instances_by_ref.get_mut(referent)")]}})
    # the invariant behind PROV:referents: instances_by_ref.remove only in finish; inserts of referents in decode_inst_chunk
    rem = []
    for fn in prog.lib_fns():
        for m in D.field_mutations(fn):
            if m["field"].endswith("DeserializerState.instances_by_ref") and m["how"].startswith("call:") and re.search(r"::(remove|clear|drain|retain|remove_entry)$", m["how"]):
                rem.append(fn.path)
    if set(rem) <= {DS + "finish"}:
        c.ok(R, "invariant:instances_by_ref-removal-only-in-finish")
    else:
        c.violation(R, "invariant|instances_by_ref", f"instances_by_ref entries are removed in {sorted(set(rem))}; the 39 `get_mut(referent).unwrap()` sites rely on removal happening only in finish()", "", instance="invariant:instances_by_ref-removal-only-in-finish")
    # dead wildcard in deserialize_properties
    from .C16 import unimplemented_arm_dead
    fn = prog.fn("rbx_xml::deserializer::deserialize_properties")
    for s in flow.panic_sites(fn):
        if s["macro"] == "unimplemented":
            if unimplemented_arm_dead(prog, fn, s["node"]):
                c.ok(R, "deserialize_properties:dead-wildcard")
            else:
                c.violation(R, "deserialize_properties|wildcard", "deserialize_properties: the `unimplemented!()` arm over DataType is reachable", core.loc(s["node"]), instance="deserialize_properties:dead-wildcard")


def _callers_of(prog, fn):
    out = []
    for g_ in prog.lib_fns():
        if g_.body is None:
            continue
        for x in core.walk_fn(g_):
            if x.get("k") == "Call" and (core.callee(x) or "") == fn.path:
                out.append((g_, x))
    return out


def caller_established_len(prog, fn, pidx):
    """length of the slice parameter `pidx` of a PRIVATE free function, as a polynomial over the function's own
    symbols (lengths of its other parameters, const generics), when every call site hands it a `vec![_; size]` of the
    caller that is never resized and `size`, rewritten from the caller's names to the callee's, is the same polynomial
    everywhere — `deinterleave(&buffer, output)` with `buffer = vec![0; output.len() * N]` gives len(output) * N"""
    from sa import algebra
    from sa.algebra import Poly, NotAffine
    if prog is None or (fn.d.get("vis") or "").startswith("Public") or fn.dk not in ("Fn",):
        return None
    calls = _callers_of(prog, fn)
    if not calls:
        return None
    result = None
    for g_, cl in calls:
        if pidx >= len(cl["args"]):
            return None

        def symfn(n):
            if n.get("k") == "MethodCall" and n["m"] == "len" and not n["args"]:
                lid, path = core.place_root_lid(n["recv"])
                if lid is not None and not [p_ for p_ in path if not p_.startswith(".")]:
                    return Poly.sym(f"len{lid}")
            if n.get("k") == "Path" and n.get("res") == "ConstParam":
                return Poly.sym("N:" + (n.get("def") or "").rsplit("::", 1)[-1])
            return None
        try:
            ln = algebra.LoopNest(g_, symfn)
            ln.run(g_.body)
        except NotAffine:
            return None
        lid, path = core.place_root_lid(cl["args"][pidx])
        if lid is None or [p_ for p_ in path if p_ not in ("&", "*")] and path:
            if lid is None:
                return None
        st = bounds.all_lets(g_).get(lid)
        if st is None:
            return None
        init = core.strip(st["init"])
        if not (init.get("k") == "Call" and init["f"].get("def") == "alloc::vec::from_elem" and len(init["args"]) == 2 and bounds.vec_never_resized(g_, lid)):
            return None
        try:
            size = algebra.poly_eval(init["args"][1], ln.env, symfn)
        except NotAffine:
            return None
        # caller symbols -> callee symbols, through the arguments that are plain locals / parameters
        ren = {}
        for k_, a in enumerate(cl["args"]):
            alid, apath = core.place_root_lid(a)
            if alid is not None and k_ < len(fn.params) and fn.params[k_].get("lid") is not None:
                ren[f"len{alid}"] = f"len{fn.params[k_]['lid']}"
        d = {}
        for mono, coef in size.d.items():
            nm = []
            for sname in mono:
                if sname.startswith("N:"):
                    nm.append(sname)
                elif sname in ren:
                    nm.append(ren[sname])
                else:
                    return None
            d[tuple(sorted(nm))] = d.get(tuple(sorted(nm)), 0) + coef
        size2 = Poly(d)
        if result is None:
            result = size2
        elif result != size2:
            return None
    return result


def param_dim(fn, root, depth):
    """length of dimension `depth` of a slice / array-of-arrays parameter, as a polynomial symbol"""
    from sa.algebra import Poly
    for pidx, prm in enumerate(fn.params):
        if prm.get("lid") == root:
            ty = (prm.get("ty") or "").lstrip("&").replace("mut ", "").strip()
            if depth == 0 and ty.startswith("["):
                est = caller_established_len(bounds.PROG, fn, pidx)
                if est is not None:
                    return est
                return Poly.sym(f"len{root}")
            m = re.match(r"^\[\[.*; (\w+)\]\]$", ty)
            if depth == 1 and m:
                return Poly.sym("N:" + m.group(1)) if not m.group(1).isdigit() else Poly.const(int(m.group(1)))
    return None


def is_instances_by_ref_unwrap(site):
    """`<map>.get(_mut)(key).unwrap()` where the map is the reader's referent -> Instance table (by type)"""
    n = site["node"]
    if n.get("k") != "MethodCall" or n["m"] not in ("unwrap", "expect"):
        return False
    r = core.strip(n["recv"])
    if r.get("k") != "MethodCall" or r["m"] not in ("get", "get_mut") or not r["args"]:
        return False
    ty = (core.strip(r["recv"]).get("ty") or "") + (r["recv"].get("aty") or "")
    return re.search(r"HashMap<i32, rbx_binary::deserializer::state::Instance", ty) is not None


def provenance_referents(fn, node, prog=None, depth=0):
    arg = core.strip(node["recv"]) if node.get("k") == "MethodCall" else None
    # node is the unwrap call; its receiver is get_mut(<key>)
    if not arg or arg.get("k") != "MethodCall" or not arg["args"]:
        return False
    key = core.strip(arg["args"][0])
    lid = key.get("lid")
    if lid is None:
        return False
    for n in core.walk_fn(fn):
        fl = core.as_for(n)
        if fl is None:
            continue
        lids = []

        def binds(p):
            if p.get("k") == "Binding":
                lids.append(p["lid"])
            for q in p.get("pats", []) or []:
                binds(q)
            if "p" in p and isinstance(p["p"], dict):
                binds(p["p"])
        binds(fl[0])
        if lid in lids:
            fp = core.fingerprint(fl[1], 8)
            root, path = core.place_root(fl[1])
            txt = fp + " " + " ".join(path)
            if "referents" in txt:
                return True
            # iterator built from a local that was zipped with referents
            it = core.strip(fl[1])
            for x in core.walk(it):
                if x.get("k") == "Path" and x.get("name") == "referents":
                    return True
                if x.get("k") == "Field" and x.get("f") == "referents":
                    return True
            # the loop ranges over a slice parameter: every call site must hand it a TypeInfo's referents
            if prog is not None and depth < 2:
                plids = {}
                for i, prm in enumerate(fn.params):
                    for b in core.walk(prm):
                        if b.get("k") == "Binding":
                            plids[b["lid"]] = i
                srcs = [plids[x["lid"]] for x in core.walk(it) if x.get("k") == "Path" and x.get("res") == "local" and x.get("lid") in plids and re.match(r"^&(mut )?(\[i32\]|alloc::vec::Vec<i32>)$", fn.params[plids[x["lid"]]].get("ty") or "")]
                if srcs:
                    idx = srcs[0]
                    calls = []
                    for g in prog.lib_fns():
                        if g.body is None or g.crate != fn.crate:
                            continue
                        for y in core.walk_fn(g):
                            if y.get("k") in ("Call", "MethodCall") and core.callee_generic(y) == fn.path:
                                calls.append(y)
                    if calls and all(any(z.get("k") == "Field" and z.get("f") == "referents" and "TypeInfo" in (core.strip(z["e"]).get("ty") or "") for z in core.walk(core.call_args(y)[idx])) for y in calls):
                        return True
    return False


def is_expect_next_unwrap(site):
    n = site["node"]
    if n.get("k") != "MethodCall" or n["m"] != "unwrap":
        return False
    r = core.strip(n["recv"])
    return r.get("k") == "MethodCall" and r["m"] == "expect_next" and "XmlEventReader" in ((r["recv"].get("ty") or "") + (r["recv"].get("aty") or ""))


def peeked_before(prog, fn, node, depth=0):
    if inside_peek_match(fn, node):
        return True
    if depth >= 2 or (fn.d.get("vis") or "").startswith("Public"):
        return False
    # a private helper: every call site must itself be under a peek
    sites = []
    for f2 in prog.fns.values():
        if f2.crate != fn.crate or f2.body is None or f2.dk == "Closure":
            continue
        for x in core.walk_fn(f2):
            if x.get("k") in ("Call", "MethodCall") and core.callee(x) == fn.path:
                sites.append((f2, x))
    return bool(sites) and all(peeked_before(prog, f2, x, depth + 1) for f2, x in sites)


def inside_peek_match(fn, node):
    for m in core.walk_fn(fn):
        if m.get("k") == "Match" and m.get("src") == "Normal":
            t = core.as_try(m["e"])
            sc = core.strip(t) if t is not None else core.strip(m["e"])
            if sc.get("k") == "MethodCall" and sc["m"] == "expect_peek":
                for arm in m["arms"]:
                    if any(x is node for x in core.walk(arm["body"])):
                        return True
    return False


def cframe_tags_covered(prog, fn):
    tags = None
    for n in core.walk_fn(fn):
        fl = core.as_for(n)
        if fl is not None:
            v = common.literal_of(prog, fl[1])
            it = core.strip(fl[1])
            if it.get("k") == "Path":
                f2 = prog.fns.get(it.get("def"))
                if f2 is not None:
                    arr = core.strip(f2.body)
                    if arr.get("k") == "Array":
                        tags = [core.lit_value(a) for a in arr["args"]]
    if not tags:
        return False
    arms = set()
    for n in core.walk_fn(fn):
        if n.get("k") == "Match" and n.get("src") == "Normal":
            for arm in n["arms"]:
                p = arm["pat"]
                if p.get("k") == "Expr" and p["e"].get("k") == "Lit":
                    arms.add(p["e"]["lit"].get("v"))
    return set(tags) <= arms


# ---------------------------------------------------------------------------------- allocation taint

ALLOC_RX = re.compile(r"(alloc::vec::Vec::<T>::with_capacity|alloc::vec::from_elem|alloc::string::String::with_capacity|alloc::collections::vec_deque::VecDeque::<T>::with_capacity"
                      r"|std::collections::hash::\w+::Hash(Map|Set)::<.*>::with_capacity|ahash::hash_(map|set)::AHash(Map|Set)::<.*>::with_capacity|<ahash::hash_(map|set)::AHash(Map|Set)<.*> as ahash::Hash(Map|Set)Ext>::with_capacity"
                      r"|::reserve$|::reserve_exact$|alloc::vec::Vec::<T, A>::resize|ahash::HashMapExt::with_capacity|ahash::HashSetExt::with_capacity|rbx_dom_weak::dom::WeakDom::reserve"
                      r"|^lz4::block::decompress$|^zstd::bulk::decompress$)")  # third-party decompressors allocate their declared output size up front
READ_RX = re.compile(r"::(read_le_u\d+|read_le_i\d+|read_be_u\d+|read_be_i\d+|read_u8|read_u16|read_u32|read_i32|read_option_u32|read_u64)$")
HEADER_TYPES = ("rbx_binary::deserializer::header::FileHeader", "rbx_binary::chunk::ChunkHeader")


def taint_of(fn, e, env, depth=6):
    """'clean' | 'taint:<why>' for a size expression."""
    e = core.strip(e)
    k = e.get("k")
    if depth <= 0:
        return "clean"
    if k == "Lit":
        return "clean"
    if k == "Cast":
        return taint_of(fn, e["e"], env, depth)
    if k == "Binary":
        a, b = taint_of(fn, e["l"], env, depth - 1), taint_of(fn, e["r"], env, depth - 1)
        return a if a != "clean" else b
    t = core.as_try(e)
    if t is not None:
        return taint_of(fn, t, env, depth)
    if k == "MethodCall":
        if e["m"] in ("len", "count", "capacity") and not e["args"]:
            return "clean"
        if e["m"] in ("min",):
            a, b = taint_of(fn, e["recv"], env, depth - 1), taint_of(fn, e["args"][0], env, depth - 1)
            return "clean" if "clean" in (a, b) else a
        if e["m"] in ("map", "unwrap_or", "unwrap_or_default", "unwrap", "map_err", "expect"):
            return taint_of(fn, e["recv"], env, depth - 1)
        cal = core.callee_generic(e) or ""
        if READ_RX.search(cal):
            return "taint:" + cal.rsplit("::", 1)[-1]
        return "clean"
    if k == "Call":
        cal = core.callee(e) or ""
        if READ_RX.search(cal):
            return "taint:" + cal.rsplit("::", 1)[-1]
        if re.search(r"Option::Some$|Result::Ok$|::from$|::try_from$", cal) and len(e["args"]) == 1:
            return taint_of(fn, e["args"][0], env, depth - 1)
        return "clean"
    if k == "Field":
        base_ty = (core.strip(e["e"]).get("ty") or "").lstrip("&").replace("mut ", "")
        if base_ty in HEADER_TYPES:
            return f"taint:{base_ty.rsplit('::', 1)[-1]}.{e['f']}"
        return taint_of(fn, e["e"], env, depth - 1) if core.strip(e["e"]).get("k") != "Path" else "clean"
    if k == "Path" and e.get("res") == "local":
        init = env.get(e["lid"])
        if init is None:
            return "clean"
        return taint_of(fn, init, env, depth - 1)
    if k == "Closure":
        return "clean"
    return "clean"


OLDKEYS = {}


OVF_DISCHARGED = {
    # (function, operation, expression) -> why the checked arithmetic cannot overflow on any input
    (BS_CORE + "read_interleaved_bytes", "Mul", "*"): "SIZE: `len * N` is the byte size of `output` (a slice that exists in memory), N = size_of the element",
    (BS_CORE + "read_interleaved_bytes", "Add", "*"): "SIZE: `i + len * j` with i < len, j < N indexes the buffer of `len * N` bytes allocated above",
    (DS + "new", "Add", "*"): "WIDEN: 1 + (u32 as usize) — needs a 64-bit usize (recorded as an assumption)",
    (DS + "decode_prop_chunk", "Mul", "*"): "WIDEN: (u32 as usize) * 4 — needs a 64-bit usize (recorded as an assumption); the allocation it sizes is a C13.alloc finding of its own",
    ("rbx_xml::deserializer_core::XmlEventReader::<R>::eat_unknown_tag", "Add", "*"): "COUNT: one increment per start tag of the input; bounded by the input length",
    ("rbx_xml::deserializer_core::XmlEventReader::<R>::eat_unknown_tag", "Sub", "*"): "BALANCE: entered on a peeked StartElement (depth 1 after the first event); xml-rs delivers balanced events, and the loop leaves when depth returns to 0",
    ("rbx_xml::error::DecodeError::new_from_reader", "Add", "*"): "COUNT: row + 1 of an xml-rs text position; bounded by the input length",
}


def rule_ovf(c, prog, g, dreach):
    R = "C13.ovf"
    bounds.PROG = prog
    c.rule(R, "every overflow-checked arithmetic operation (MIR `Assert(Overflow(..))`: + - * << >> unary -) in code reachable from a decoder entry point is enumerated; it is discharged by computation (constant shift amount below the width; negation of a value masked to a non-negative constant; constant operands) or by a confirmed table entry with the bound — otherwise a wire value can make a debug / overflow-checked build panic")
    n = 0
    for fn in lib_named(prog, dreach):
        if not fn.mir:
            continue
        defs = {}
        for bb in fn.mir["blocks"]:
            for st in bb["stmts"]:
                if st.get("k") == "assign" and st["lhs"].get("k") == "place" and not st["lhs"].get("proj"):
                    defs.setdefault(st["lhs"]["l"], []).append(st)
        for bb in fn.mir["blocks"]:
            t = bb["term"]
            if t["k"] != "assert" or not str(t.get("msg", "")).startswith("overflow:"):
                continue
            op = t["msg"].split(":", 1)[1]
            n += 1
            sp = t.get("sp", "")
            loc = ":".join(sp.split(":")[:2])
            inst = f"{fn.path}|overflow|{op}@{loc.rsplit(':', 1)[-1] if False else op}"
            # statements of the same source span
            same = [st for b2 in fn.mir["blocks"] for st in b2["stmts"] if st.get("sp") == sp]
            why = None
            if op in ("Shr", "Shl"):
                sh = [st for st in same if st.get("rk") in ("bin:Shr", "bin:Shl")]
                if sh and sh[0]["ops"][1].get("k") == "const":
                    m = re.match(r"^(\d+)_", str(sh[0]["ops"][1].get("v")))
                    wty = fn.mir["locals"][sh[0]["ops"][0]["l"]] if sh[0]["ops"][0].get("k") == "place" else sh[0]["ops"][0].get("ty", "")
                    wm = re.search(r"(\d+)$", wty or "")
                    width = int(wm.group(1)) if wm else 64
                    if m and int(m.group(1)) < width:
                        why = f"CONST-SHIFT: by {m.group(1)} < {width}"
            elif op == "Neg":
                cond = t["cond"]["l"]
                eq = [st for st in defs.get(cond, []) if st.get("rk") == "bin:Eq"]
                if eq and eq[0]["ops"][0].get("k") == "place":
                    src = [st for st in defs.get(eq[0]["ops"][0]["l"], []) if st.get("rk") == "bin:BitAnd" and st["ops"][1].get("k") == "const"]
                    if src:
                        m = re.match(r"^(\d+)_", str(src[0]["ops"][1].get("v")))
                        if m:
                            why = f"MASKED: negation of a value masked with {m.group(1)} (never MIN)"
            else:
                arith = [st for st in same if str(st.get("rk", "")).endswith("WithOverflow")]
                if arith and all(o.get("k") == "const" for o in arith[0]["ops"]):
                    why = "CONST: both operands are constants"
            if why is None and op in ("Add", "Mul") and fn.body is not None:
                # a polynomial in counters of constant-length loops: its maximum is a small known number
                for hn in core.walk_fn(fn):
                    if hn.get("k") in ("Binary", "AssignOp") and hn.get("sp") == sp:
                        r = bounds.counter_max(fn, hn)
                        if r is not None and r[1] < 2 ** 31:
                            why = f"COUNTER: `{r[0]}` over constant-length loops is at most {r[1]}"
                        break
            if why is None:
                why = OVF_DISCHARGED.get((fn.path, op, "*"))
            if why is None and not (fn.d.get("vis") or "").startswith("Public") and fn.dk == "Fn":
                # a private helper carved out of functions whose arithmetic of this kind is discharged: the same bound
                # holds for the values they hand it
                cs = {g_.path for g_, _x in _callers_of(prog, fn)}
                ws = [OVF_DISCHARGED.get((p_, op, "*")) for p_ in cs]
                if cs and all(ws):
                    why = "via " + ", ".join(sorted(cs)) + ": " + ws[0]
            inst = f"{fn.path}|overflow:{op}"
            if why:
                c.ok(R, inst)
            else:
                c.violation(R, f"{fn.path}|overflow|{op}", f"{fn.path}: checked `{op}` at {loc} operates on values read from the input and nothing bounds them: a crafted file makes an overflow-checked (debug) build panic with `attempt to {op.lower()} with overflow`; release builds wrap silently", sp, instance=inst)
    c.floor(R, n, 5, "overflow-checked operations in decoder-reachable code")


def bounded_by_guard(fn, size, alloc, env):
    """the size was compared with the amount of data actually held, and the function left when it was larger, before
    the allocation: `if count as usize > chunk.len() / 8 { return Err(..) }`"""
    def locals_of(e, depth=4):
        out = set()
        for y in core.walk(e):
            if y.get("k") == "Path" and y.get("res") == "local":
                out.add(y["lid"])
                if depth and y["lid"] in env:
                    out |= locals_of(env[y["lid"]], depth - 1)
        return out
    sized = locals_of(size)
    direct = locals_of(size, 0)
    if not sized or not direct:
        return False

    def leaves(b):
        b = core.strip(b)
        if b.get("k") in ("Ret",) or b.get("ty") == "!":
            return True
        if b.get("k") == "Block":
            for st in b["b"]["stmts"]:
                e = core.strip(st.get("e") or {})
                if e.get("k") == "Ret" or e.get("ty") == "!":
                    return True
            if "expr" in b["b"]:
                return leaves(b["b"]["expr"])
        return False
    for n in core.walk_fn(fn, into_closures=False):
        if n.get("k") != "If" or sp_key(n) >= sp_key(alloc):
            continue
        cnd = core.strip(n["c"])
        if cnd.get("k") != "Binary" or cnd.get("op") not in (">", ">=", "<", "<="):
            continue
        l_, r_ = cnd["l"], cnd["r"]
        def mentions_size(e):
            # locals of the size, other than as the receiver of a len() (`chunk.len()` is the data held, even though the
            # size was read from `chunk`)
            stack = [e]
            while stack:
                y = stack.pop()
                if y.get("k") == "MethodCall" and y["m"] in ("len", "remaining") and not y["args"]:
                    continue
                if y.get("k") == "Path" and y.get("res") == "local" and (y["lid"] in direct or (y["lid"] in env and locals_of(env[y["lid"]], 0) & direct)):
                    return True
                stack.extend(core.children(y))
            return False
        lt, rt = mentions_size(l_), mentions_size(r_)
        if lt == rt:
            continue
        other = r_ if lt else l_
        if not any(y.get("k") == "MethodCall" and y["m"] in ("len", "remaining") and not y["args"] for y in core.walk(other)):
            continue
        tainted_larger_in_then = (cnd["op"] in (">", ">=")) == lt
        if tainted_larger_in_then and leaves(n["t"]):
            return True
        if not tainted_larger_in_then and n.get("f") is not None and leaves(n["f"]):
            return True
    return False


def rule_alloc(c, prog, g, dreach):
    R = "C13.alloc"
    ordinal = {}
    ordinal_old = {}
    c.rule(R, "an integer read from the input (read_le_u32 …, FileHeader / ChunkHeader fields) must not reach an allocation size (with_capacity, vec![_; n], reserve) unless bounded by the bytes actually held (min(..), len() of held data)")
    n = 0
    for fn in lib_named(prog, dreach):
        if fn.body is None:
            continue
        env = {}
        for st in core.walk_lets(fn.body):
            if st["pat"].get("k") == "Binding" and "init" in st:
                env[st["pat"]["lid"]] = st["init"]
        for x in core.walk_fn(fn):
            if x.get("k") not in ("Call", "MethodCall"):
                continue
            cal = core.callee(x) or ""
            gen = core.callee_generic(x) or ""
            if not (ALLOC_RX.search(cal) or ALLOC_RX.search(gen)):
                continue
            args = x["args"]
            if not args:
                continue
            size = args[-1]
            n += 1
            t = taint_of(fn, size, env)
            name = core.short(gen)
            inst = f"{fn.path}|{name}|{core.fingerprint(size, 4)}"
            if t != "clean" and bounded_by_guard(fn, size, x, env):
                t = "clean"
            if t == "clean":
                c.ok(R, inst)
            else:
                # a site is identified by function, allocator and the *origin* of the tainted size (header field /
                # read primitive), numbered among equals in source order — not by the names of intermediate locals
                # (the kind of container allocated is not part of the identity: Vec for VecDeque is the same site)
                ordk = (fn.path, t[6:])
                ordinal[ordk] = ordinal.get(ordk, 0) + 1
                oldk = (fn.path, name, t[6:])
                ordinal_old[oldk] = ordinal_old.get(oldk, 0) + 1
                key = f"{fn.path}|alloc|from {t[6:]}#{ordinal[ordk]}"
                OLDKEYS[key] = f"C13.alloc|{fn.path}|{name}|from {t[6:]}#{ordinal_old[oldk]}"
                c.violation(R, key, f"{fn.path}: `{name}({core.fingerprint(size, 4)})` sizes an allocation from an integer read from the input ({t[6:]}) without bounding it by the bytes available: a few bytes of input can request gigabytes (abort / OOM)", core.loc(x), instance=inst)
    c.floor(R, n, 25, "allocation sites reachable from decoders")


def rule_entities(c, prog, R="C13.alloc"):
    """XML: text the document defines itself (DTD entities) must not multiply the memory the reader needs"""
    fns = [f for f in prog.lib_fns() if f.body is not None and f.crate == "rbx_xml" and any(x.get("k") in ("Call", "MethodCall") and re.search(r"xml::reader::(config::)?ParserConfig2?::(new|default)", core.callee(x) or "") for x in core.walk_fn(f))]
    if not fns:
        raise core.AnchorMissing("no xml-rs ParserConfig is built in rbx_xml")
    for f in fns:
        inst = f"{f.path}|entity-expansion"
        setters = {x["m"] for x in core.walk_fn(f) if x.get("k") == "MethodCall"}
        if setters & {"max_entity_expansion_length", "max_entity_expansion_depth", "allow_multiple_root_elements_and_no_dtd", "ignore_dtd", "max_data_length"}:
            c.ok(R, inst)
        else:
            c.violation(R, f"{f.path}|alloc|entity-expansion", f"{f.path} builds the xml-rs parser with its default entity settings: an internal DTD can define an entity of up to a megabyte and the document can refer to it once every few bytes, so a 10 kB file decodes into tens of megabytes of text (memory grows with entity length x references, not with the input size)", f.sp, instance=inst)


def rule_rec(c, prog, g, dreach):
    R = "C13.rec"
    c.rule(R, "no call-graph cycle among workspace functions reachable from a decoder (recursion depth would be controlled by the input)")
    nodes = {p for p in dreach if prog.fns[p].crate in core.LIB_CRATES}
    comps = g.sccs(nodes)
    c.analysed["decoder_callgraph"] = {"nodes": len(nodes), "edges": sum(len(g.edges.get(p, ())) for p in nodes)}
    if not comps:
        c.ok(R, "no-recursion")
    for comp in comps:
        wf = type_directed_wellfounded(prog, g, comp)
        if wf is not None:
            c.ok(R, "type-directed:" + wf)
            continue
        names = [x for x in comp if prog.fns[x].dk != "Closure"]
        key = "|".join(sorted(core.short(x) for x in names))
        c.violation(R, f"cycle|{key}", f"recursion reachable from a decoder: {names}; nesting depth in the input controls stack depth (stack overflow on deeply nested documents)", prog.fns[names[0]].sp if names else "", instance=f"cycle:{key}")


def type_directed_wellfounded(prog, g, comp):
    """A cycle that exists only through class-hierarchy resolution of `<T as Trait>::method` inside generic helpers
    is spurious when the *type-level* graph (impl for S passes type U to the generic helpers / trait) is acyclic."""
    comp_set = set(comp)
    impl_of = {}
    for imp in prog.impls:
        if imp.get("trait") in prog.traits:
            for it in imp["items"]:
                if it["path"] in comp_set:
                    impl_of[it["path"]] = (imp["trait"], imp["self"])
    if not impl_of:
        return None
    traits = {t for t, _ in impl_of.values()}
    if len(traits) != 1:
        return None
    trait = next(iter(traits))
    # every non-impl member must be a generic helper (has a type-parameter-dispatched call) or a trait default method
    helpers = comp_set - set(impl_of)
    for h in helpers:
        fn = prog.fns[h]
        if fn.dk == "Closure":
            return None
        gen_dispatch = False
        for i, cal, gen, t in D.mir_calls(fn):
            fa = t.get("fnargs") or ""
            if re.match(r"^<\w+ as " + re.escape(trait) + r">::", fa) or (gen and gen.startswith(trait + "::") and not t.get("inst")):
                gen_dispatch = True
            if cal in comp_set and cal not in impl_of and cal != h:
                gen_dispatch = gen_dispatch or True
        if not gen_dispatch and not h.startswith(trait + "::"):
            return None
    # type graph
    edges = {}
    types = {s for _, s in impl_of.values()}
    for m, (tr, s) in impl_of.items():
        fn = prog.fns[m]
        outs = set()
        bodies = [fn] + fn.closures
        for b in bodies:
            for i, cal, gen, t in D.mir_calls(b):
                tgt = t.get("inst") or t.get("fn") or ""
                if tgt in comp_set or (gen or "") in comp_set:
                    fa = t.get("fnargs") or ""
                    mm = re.search(r"::<(.+)>$", fa)
                    cand = []
                    if mm:
                        cand.append(mm.group(1))
                    mm2 = re.match(r"^<(.+?) as " + re.escape(trait) + r">::", fa)
                    if mm2:
                        cand.append(mm2.group(1))
                    if not cand:
                        return None
                    for u in cand:
                        # keep only arguments that name an implementing type
                        for part in split_args(u):
                            if part in types:
                                outs.add(part)
        edges[s] = outs
    # acyclicity
    state = {}

    def dfs(v):
        if state.get(v) == 1:
            return False
        if state.get(v) == 2:
            return True
        state[v] = 1
        for w in edges.get(v, ()):
            if not dfs(w):
                return False
        state[v] = 2
        return True
    if all(dfs(v) for v in list(edges)):
        return f"{core.short(trait)}: {len(edges)} implementing types, type graph acyclic"
    return None


def split_args(s):
    out, depth, cur = [], 0, ""
    for ch in s:
        if ch in "<([":
            depth += 1
        elif ch in ">)]":
            depth -= 1
        if ch == "," and depth == 0:
            out.append(cur.strip())
            cur = ""
        else:
            cur += ch
    if cur.strip():
        out.append(cur.strip())
    return out


CONSUMERS = re.compile(r"(next_chunk|expect_next|read_exact|::read$|::next$|pop_front|pop_back|::pop$|read_one_characters_event|eat_unknown_tag|deserialize_instance|deserialize_metadata|deserialize_shared_string|deserialize_shared_string_dict|deserialize_properties|read_value_xml|expect_start_with_name|expect_end_with_name|read_tag_contents|read_characters|Chunk::decode|::remove$)")


def rule_prog(c, prog, g, dreach):
    R = "C13.prog"
    c.rule(R, "every `loop`/`while` in decoder-reachable functions consumes input (or a finite work list / the acyclic superclass chain) on every path back to its head, or leaves the loop")
    n = 0
    data_loops = {
        "rbx_binary::core::find_property_descriptors": "walks the superclass chain: finite because chains are acyclic (C16.data superclass-rooted)",
        "rbx_xml::core::find_property_descriptors": "walks the superclass chain (C16.data)",
        "rbx_reflection::database::ReflectionDatabase::<'a>::find_default_property": "walks the superclass chain (C16.data)",
    }
    for fn in lib_named(prog, dreach):
        if fn.body is None:
            continue
        for lp in core.walk_fn(fn):
            if lp.get("k") != "Loop" or lp.get("src") == "ForLoop":
                continue
            n += 1
            inst = f"{fn.path}|loop@{n}"
            if fn.path in data_loops:
                c.ok(R, f"{fn.path}|superclass-walk")
                continue
            tb = decision.Tabler(namer=lambda x: None if core.strip(x).get("k") == "LetExpr" else core.fingerprint(x, 4), effect_namer=lambda x: (core.callee_generic(x) or core.fingerprint(x, 2)) if x.get("k") in ("MethodCall", "Call") else core.fingerprint(x, 2))
            try:
                paths = tb.paths({"k": "Block", "b": lp["b"]})
            except core.AnalysisError:
                c.violation(R, f"{fn.path}|loop|too-many-paths", f"{fn.path}: loop too complex to establish progress", core.loc(lp))
                continue
            bad = []
            for p in paths:
                if p.exit in ("break", "return", "err"):
                    continue
                names = [e for e in p.effects]
                # condition calls of `while let Some(x) = q.pop_front()` appear as cond atoms
                conds = " ".join(a for a, v in p.conds)
                if any(CONSUMERS.search(e) for e in names) or CONSUMERS.search(conds) or re.search(r"(pop_front|pop_back|\.pop\(|\.next\(|read_one_characters_event|\.read\(|\.last\()", conds):
                    continue
                bad.append(p)
            if not bad:
                c.ok(R, f"{fn.path}|loop-progress")
            else:
                c.violation(R, f"{fn.path}|loop|no-progress", f"{fn.path}: a path through the loop returns to its head without consuming input or shrinking a work list: {bad[0]!r}", core.loc(lp), instance=inst)
    c.floor(R, n, 10, "loops in decoder-reachable functions")


def rule_trunc(c, prog):
    R = "C13.trunc"
    c.rule(R, "the binary chunk loop leaves normally only through the END\\0 arm; unknown chunk names are skipped; EOF inside next_chunk is an error (read_exact); the XML root loop leaves only on </roblox> / EndDocument")
    fn = prog.fn("rbx_binary::deserializer::Deserializer::<'db>::deserialize")
    loops = [n for n in core.walk_fn(fn) if n.get("k") == "Loop" and n.get("src") != "ForLoop"]
    if len(loops) != 1:
        raise core.AnchorMissing("Deserializer::deserialize: chunk loop")
    lp = loops[0]
    # `while !done { .. done = true .. }`: setting the flag the loop tests is the `break` of that spelling, and the
    # `break` the desugared `while` carries in its else branch is not an exit of its own
    flag_lids, desugared_breaks = set(), set()
    top = None
    b0 = lp.get("b") or {}
    cand = (b0.get("expr") or (b0.get("stmts") or [{}])[-1].get("e")) if b0 else None
    if cand is not None:
        top = core.strip(cand)
        while top.get("k") in ("DropTemps", "Block") and (top.get("e") or (top.get("b", {}).get("expr"))):
            top = core.strip(top.get("e") or top["b"]["expr"])
    if top is not None and top.get("k") == "If" and lp.get("src") in ("While", "WhileLet", "Loop"):
        cnd = core.strip(top["c"])
        while cnd.get("k") == "DropTemps":
            cnd = core.strip(cnd["e"])
        if cnd.get("k") == "Unary" and cnd.get("op") in ("!", "Not") and core.strip(cnd["e"]).get("res") == "local" and (core.strip(cnd["e"]).get("ty") == "bool"):
            flag_lids.add(core.strip(cnd["e"])["lid"])
            if "f" in top:
                desugared_breaks |= {id(x) for x in core.walk(top["f"]) if x.get("k") == "Break"}

    def sets_flag(e):
        return any(x.get("k") == "Assign" and core.strip(x["l"]).get("lid") in flag_lids and core.lit_value(x["r"]) is True for x in core.walk(e))
    m = [n for n in core.walk(lp) if n.get("k") == "Match" and n.get("src") == "Normal"]
    breaks = {}
    arms_ok = None
    for mm in m:
        lits = {}
        for arm in mm["arms"]:
            p = arm["pat"]
            while p.get("k") in ("Ref", "Deref"):
                p = p["p"]
            key = None
            if p.get("k") == "Expr" and p["e"].get("k") == "Lit":
                v = p["e"]["lit"].get("v")
                key = bytes(v).decode("latin1") if isinstance(v, list) else v
            elif p.get("k") in ("Wild", "Binding"):
                key = "_"
            if key is not None:
                has_break = any(x.get("k") == "Break" for x in core.walk(arm["body"])) or sets_flag(arm["body"])
                has_ret = any(x.get("k") == "Ret" for x in core.walk(arm["body"]) if core.as_try(x) is None)
                errs = [x for x in core.walk(arm["body"]) if x.get("k") == "Ret"]
                lits[key] = (has_break, bool(errs))
        if "END\0" in lits or "END\x00" in lits:
            arms_ok = lits
    if arms_ok is None:
        raise core.AnchorMissing("Deserializer::deserialize: match on chunk name with an END arm")
    bad = [k for k, (b, r) in arms_ok.items() if b and k not in ("END\0", "END\x00")]
    other_breaks = [x for x in core.walk(lp) if (x.get("k") == "Break" and id(x) not in desugared_breaks) or (x.get("k") == "Assign" and core.strip(x["l"]).get("lid") in flag_lids and core.lit_value(x["r"]) is True)]
    if not bad and len(other_breaks) == 1 and arms_ok.get("END\0", arms_ok.get("END\x00"))[0]:
        c.ok(R, "binary:only-END-breaks")
    else:
        c.violation(R, "binary|loop-exit", f"the chunk loop can be left through {bad or 'a break outside the END arm'}; only the END chunk may end decoding normally (otherwise a truncated file is accepted)", core.loc(lp), instance="binary:only-END-breaks")
    wild = arms_ok.get("_")
    if wild is not None:
        # the unknown-chunk arm must not return an error
        for mm in m:
            for arm in mm["arms"]:
                p = arm["pat"]
                if p.get("k") in ("Wild", "Binding"):
                    explicit_rets = [x for x in core.walk(arm["body"]) if x.get("k") == "Ret" and not is_try_ret(arm["body"], x)]
                    if explicit_rets:
                        c.violation(R, "binary|unknown-chunk", "the arm for unknown chunk names returns (an unknown chunk must be skipped, C04)", core.loc(arm["body"]), instance="binary:unknown-chunk-skipped")
                    else:
                        c.ok(R, "binary:unknown-chunk-skipped")
    # next_chunk -> Chunk::decode -> read_exact on the header
    # (the header is read by Chunk::decode itself or by private helpers of its module: all of them are looked at)
    dec = prog.fn("rbx_binary::chunk::Chunk::decode")
    g_ = flow.CallGraph(prog)
    region = [prog.fns[p_] for p_ in sorted(g_.reach([dec.path])) if p_.startswith("rbx_binary::chunk::") and prog.fns[p_].body is not None]
    reads = [core.callee_generic(n) for f_ in region for n in core.walk_fn(f_) if n.get("k") == "MethodCall"]
    if "std::io::Read::read_exact" in reads and not any(r == "std::io::Read::read" for r in reads):
        c.ok(R, "binary:header-read_exact")
    else:
        c.violation(R, "binary|header-read", "Chunk::decode (with its helpers) no longer reads the chunk header with read_exact (EOF must be an error)", dec.sp, instance="binary:header-read_exact")


def is_try_ret(root, ret):
    for n in core.walk(root):
        if core.as_try(n) is not None and any(x is ret for x in core.walk(n)):
            return True
    return False


def sp_key(n):
    parts = (n.get("sp") or "").split(":")
    try:
        return (int(parts[1]), int(parts[2]))
    except (IndexError, ValueError):
        return (0, 0)


def rule_read_or_none(c, prog, R):
    """the one place that calls Read::read directly: fills the buffer completely or reports which of the three outcomes
    (nothing at all / short / full) happened, retrying Interrupted"""
    allowed = "rbx_types::attributes::reader::read_exact_or_none"
    fn = prog.fn(allowed)
    m = [n for n in core.walk_fn(fn) if n.get("k") == "Match" and core.strip(n["e"]).get("m") == "read"]
    ok = False
    if m:
        rows = {}
        for arm in m[0]["arms"]:
            ps = core.pat_str(arm["pat"])
            kinds = {x.get("k") for x in core.walk(arm["body"])}
            guard = core.fingerprint(arm["guard"], 6) if "guard" in arm else ""
            rows[ps + ("|" + guard if guard else "")] = kinds
        zero = [k for k in rows if k.startswith("Result::Ok(0")]
        intr = [k for k in rows if "Interrupted" in k]
        err = [k for k in rows if k.startswith("Result::Err") and "Interrupted" not in k]
        some = [k for k in rows if k.startswith("Result::Ok(") and not k.startswith("Result::Ok(0")]
        ok = bool(zero) and "Break" in rows[zero[0]] and bool(intr) and "Ret" not in rows[intr[0]] and "Break" not in rows[intr[0]] and bool(err) and "Ret" in rows[err[0]] \
            and bool(some) and "Break" not in rows[some[0]] and "Ret" not in rows[some[0]]
    if ok:
        c.ok(R, "read_exact_or_none:retry-interrupted")
    else:
        c.violation(R, "read_exact_or_none|arms", "read_exact_or_none must treat Ok(0) as EOF (break), retry ErrorKind::Interrupted, and return other errors; an arm is missing or changed (a successful partial read must go round the loop again, not leave it)", fn.sp, instance="read_exact_or_none:retry-interrupted")


def rule_read(c, prog, g, dreach):
    R = "C13.read"
    c.rule(R, "raw Read::read is called only inside read_exact_or_none, whose loop retries Interrupted and treats Ok(0) as EOF; everything else uses read_exact / take().read_to_end / xml-rs")
    users = []
    for fn in lib_named(prog, dreach):
        for x in core.walk_fn(fn):
            if x.get("k") == "MethodCall" and core.callee_generic(x) == "std::io::Read::read":
                users.append(fn.path)
    allowed = "rbx_types::attributes::reader::read_exact_or_none"
    for u in sorted(set(users)):
        if u == allowed:
            c.ok(R, u)
        else:
            c.violation(R, f"raw-read|{u}", f"{u} calls Read::read directly: a short read or an Interrupted error changes the result", prog.fns[u].sp, instance=u)
    rule_read_or_none(c, prog, R)
    # Read::read_to_end behind take(len): on the caller's stream a short result is a truncated input and must be
    # rejected (compare the length); on an in-memory chunk (&[u8]) truncation was already rejected by Chunk::decode
    MEM = re.compile(r"^(&(mut )?)*\[u8\]$|^(&(mut )?)+\[u8\]$")

    def peel(ty):
        ty = ty or ""
        while ty.startswith("&"):
            ty = ty[5:] if ty.startswith("&mut ") else ty[1:]
        return ty

    def in_memory(ty):
        return peel(ty) == "[u8]" or peel(ty).startswith("std::io::Cursor<")

    def reader_class(fn2, recv):
        """'memory' when every way the decoder reaches this read has an in-memory byte slice as the reader"""
        ty = recv.get("ty")
        if in_memory(ty):
            return "memory"
        if peel(ty) in ("Self",) or re.match(r"^[A-Z]\w*$", peel(ty) or ""):
            # generic reader: look at what the decoder's call sites instantiate it with
            tys = set()
            short = fn2.path.rsplit("::", 1)[-1]
            for caller in lib_named(prog, dreach):
                for y in core.walk_fn(caller):
                    if y.get("k") in ("MethodCall", "Call") and core.callee_generic(y) == fn2.path:
                        if y.get("k") == "MethodCall":
                            tys.add(y["recv"].get("ty"))
                        else:
                            tys.update(a.get("ty") for a in core.call_args(y) if "Read" in (a.get("ty") or "") or in_memory(a.get("ty")) or re.match(r"^(&mut )?[A-Z]\w*$", a.get("ty") or ""))
            if tys and all(in_memory(t) for t in tys):
                return "memory"
        return "stream"

    def derived_locals(fn2, lid):
        d = {lid}
        changed = True
        lets = [st for st in core.walk_lets(fn2.body) if st.get("init") is not None]
        while changed:
            changed = False
            for st in lets:
                bound = {b["lid"] for b in core.walk(st["pat"]) if b.get("k") == "Binding"}
                if bound <= d:
                    continue
                if any(y.get("k") == "Path" and y.get("res") == "local" and y.get("lid") in d for y in core.walk(st["init"])):
                    d |= bound
                    changed = True
        return d

    def length_checked(fn2, lid):
        d = derived_locals(fn2, lid)
        for y in core.walk_fn(fn2):
            if y.get("k") == "If":
                cmp_ = [z for z in core.walk(y["c"]) if z.get("k") == "Binary" and z["op"] in ("!=", "==", "<", ">", "<=", ">=")]
                lens = [z for b in cmp_ for z in core.walk(b) if z.get("k") == "MethodCall" and z["m"] == "len" and core.strip(z["recv"]).get("lid") in d]
                # one side of the test fails the decode: `return Err(..)` or an `Err(..)` value of the branch
                rets = [z for br in (y["t"], y.get("f")) if br is not None for z in core.walk(br)
                        if z.get("k") == "Call" and (core.callee(z) or "").endswith("result::Result::Err") and not any(core.as_try(w) is not None and any(v is z for v in core.walk(w)) for w in core.walk(br))]
                if lens and rets:
                    return True
        return False
    for fn2 in lib_named(prog, dreach):
        for x in core.walk_fn(fn2):
            if x.get("k") == "MethodCall" and core.callee_generic(x) in ("std::io::Read::read_to_end", "std::io::Read::read_to_string"):
                inst = f"{fn2.path}|{x['m']}"
                rc = core.strip(x["recv"])
                src = rc["recv"] if rc.get("k") == "MethodCall" and rc["m"] == "take" else x["recv"]
                cls = reader_class(fn2, src)
                buf = core.strip(x["args"][0]) if x["args"] else {}
                while buf.get("k") in ("AddrOf", "Unary"):
                    buf = core.strip(buf["e"])
                if cls == "memory":
                    c.ok(R, inst + "|in-memory")
                elif buf.get("lid") is not None and length_checked(fn2, buf["lid"]):
                    c.ok(R, inst + "|length-checked")
                else:
                    c.violation(R, f"short|{fn2.path}|{x['m']}", f"{fn2.path} reads a declared number of bytes from the caller's stream with take(n).{x['m']}() and never compares what arrived with n: an input cut off inside this field decodes to a silently shortened value instead of an error (use read_exact, or reject a short result)", core.loc(x), instance=inst)
    # a buffering adaptor put on a borrow of the caller's stream may read past what it hands out; dropping it while the
    # stream goes on being read loses those bytes whenever read() returns less than was asked for
    nb = 0
    for fn2 in lib_named(prog, dreach):
        for x in core.walk_fn(fn2):
            if x.get("k") == "Call" and re.search(r"(BufReader|LineWriter|BufWriter)(::<[^>]*>)?::(new|with_capacity)$", core.callee_generic(x) or ""):
                if "BufReader" not in (core.callee_generic(x) or ""):
                    continue
                args = core.call_args(x)
                inner = args[-1] if args else {}
                if (inner.get("ty") or "").startswith("&mut "):
                    base = core.strip(inner)
                    while base.get("k") in ("AddrOf", "Unary"):
                        base = core.strip(base["e"])
                    later = [y for y in core.walk_fn(fn2) if y.get("k") == "Path" and y.get("res") == "local" and y.get("lid") == base.get("lid") and y is not base and sp_key(y) > sp_key(x)]
                    nb += 1
                    if later:
                        c.violation(R, f"rebuffer|{fn2.path}", f"{fn2.path} wraps a borrow of the stream in a BufReader and goes on reading the stream itself afterwards: whatever the BufReader had read ahead is lost, so the result depends on how the reader splits the input into read() calls", core.loc(x), instance=f"{fn2.path}|bufreader")
                    else:
                        c.ok(R, f"{fn2.path}|bufreader")
    if nb == 0:
        c.ok(R, "no-temporary-bufreader-on-borrowed-stream")


def rule_sink(c, prog, g, sreach):
    R = "C13.sink"
    c.rule(R, "on serializer paths every Result of a write is propagated: none is discarded (.ok(), let _ =, unwrap_or…), unwrapped or expected; buffered writers are flushed before success is reported")
    IO_RES = re.compile(r"^core::result::Result<.*(std::io::error::Error|EncodeError|InnerError|xml::writer::\w*::?Error|AttributeError|rbx_types::error::Error)>$")
    n = 0
    for fn in lib_named(prog, sreach):
        if fn.body is None or fn.crate not in ("rbx_binary", "rbx_xml", "rbx_types"):
            continue
        if fn.crate == "rbx_types" and "attributes::writer" not in fn.path and "Attributes::to_writer" not in fn.path:
            continue
        for x in core.walk_fn(fn):
            if x.get("k") == "MethodCall" and x["m"] in ("ok", "unwrap_or", "unwrap_or_default", "unwrap_or_else", "is_ok", "is_err", "err", "unwrap", "expect", "or", "or_else"):
                rty = x["recv"].get("ty") or ""
                if IO_RES.match(rty) and core.strip(x["recv"]).get("k") in ("MethodCall", "Call"):
                    n += 1
                    inner = core.strip(x["recv"])
                    c.violation(R, f"{fn.path}|{x['m']}|{core.fingerprint(inner, 3)}", f"{fn.path}: the Result of `{core.fingerprint(inner, 3)}` is consumed by `.{x['m']}()` instead of being propagated: a failing sink would panic or be reported as success", core.loc(x), instance=f"{fn.path}|{x['m']}")
            if x.get("k") in ("Block", "Loop"):
                for st in x["b"]["stmts"]:
                    if st["k"] == "Let" and st["pat"].get("k") == "Wild" and "init" in st and IO_RES.match(st["init"].get("ty") or ""):
                        c.violation(R, f"{fn.path}|let_|{core.fingerprint(st['init'], 3)}", f"{fn.path}: `let _ = {core.fingerprint(st['init'], 3)}` discards a write error", core.loc(st["init"]), instance=f"{fn.path}|let_")
            if x.get("k") in ("Call", "MethodCall"):
                cal = core.callee(x) or ""
                if re.search(r"std::io::(buffered::)?(bufwriter::)?BufWriter::<W>::(new|with_capacity)$|LineWriter::<W>::new$", cal):
                    flushed = any(y.get("k") == "MethodCall" and y["m"] in ("flush", "into_inner") for y in core.walk_fn(fn))
                    if not flushed:
                        c.violation(R, f"{fn.path}|bufwriter-unflushed", f"{fn.path} wraps the output in a BufWriter and never flushes it: a sink failure in the last buffered block is swallowed by Drop and success is reported for a truncated file", core.loc(x), instance=f"{fn.path}|bufwriter")
                    else:
                        c.ok(R, f"{fn.path}|bufwriter-flushed")
        # count propagated writes for evidence
        for x in core.walk_fn(fn):
            if core.as_try(x) is not None:
                inner = core.strip(core.as_try(x))
                if IO_RES.match(inner.get("ty") or ""):
                    c.ok(R, None)
    c.analysed["serializer_reachable_functions"] = len(sreach)
    # the sink is taken BY VALUE (`writer: W`) and dropped when the serializer returns: a buffering sink (the documented
    # `BufWriter::new(File::create(..)?)`) is then flushed by its Drop, which swallows the error. The serializer itself must
    # flush before it reports success.
    for crate, what in (("rbx_binary", "Serializer::serialize"), ("rbx_xml", "to_writer / encode_internal")):
        fl = [(fn, x) for fn in lib_named(prog, sreach) if fn.crate == crate and fn.body is not None for x in core.walk_fn(fn)
              if x.get("k") == "MethodCall" and x["m"] == "flush" and (core.callee_generic(x) or "").endswith("std::io::Write::flush")]
        inst = f"{crate}|final-flush"
        propagated = [1 for fn, x in fl if any(core.as_try(t) is not None and any(z is x for z in core.walk(core.as_try(t))) for t in core.walk_fn(fn)) or "map_err" in core.fingerprint(fn.body, 40)]
        if fl and propagated:
            c.ok(R, inst)
        else:
            c.violation(R, f"{crate}|no-final-flush", f"{crate}: {what} takes the sink by value and returns without flushing it: with a buffering sink passed as the crate documentation shows (`BufWriter::new(File::create(..)?)`), a write failure in the buffered tail is swallowed when the sink is dropped and Ok(()) is returned for a truncated file", "", instance=inst)


def run(c, prog):
    g = flow.CallGraph(prog)
    droots, dreach, sroots, sreach = reach_sets(prog, g)
    rule_panic(c, prog, g, dreach)
    rule_alloc(c, prog, g, dreach)
    rule_entities(c, prog)
    rule_ovf(c, prog, g, dreach)
    rule_rec(c, prog, g, dreach)
    rule_prog(c, prog, g, dreach)
    rule_trunc(c, prog)
    rule_read(c, prog, g, dreach)
    rule_sink(c, prog, g, sreach)
    c.not_decided += ["panics inside xml-rs / lz4 / zstd / base64", "abort on allocation failure for sizes that are proportional to the input"]
