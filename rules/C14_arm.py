"""C14.arm — writer/reader duality of every attribute type (byte-level wire shapes), C14.spec — layout vs docs/attributes.md."""
import re

from sa import core, sym, shape, wire, spec
from sa.sym import C, OK, SOME, NONE, var, is_var, fld, payload, term_str
from .common import vname, VARIANT

RD = "rbx_types::attributes::reader::"
WR = "rbx_types::attributes::writer::"


def p_reon(I, n, path, arg_nodes, env):
    wire.p_read_exact(I, n, path, arg_nodes, env)
    return var(OK, C(True))


def p_insert(I, n, path, arg_nodes, env):
    I.eval(arg_nodes[0], env)
    k = I.eval(arg_nodes[1], env)
    v = I.eval(arg_nodes[2], env)
    I.emit(("sink", "insert", ("tup", (k, v)), core.loc(n)))
    return var(NONE)


def attr_pairs():
    P = shape.default_pairs()

    def codec(t):
        if t[0] == "app":
            f = t[1]
            a = t[2]
            # FontWeight::from_u16(as_u16(x)) -> Some(x), FontStyle likewise (tables checked by C17.names / inverse-table rule)
            for frm, to in (("FontWeight::from_u16", "FontWeight::as_u16"), ("FontStyle::from_u8", "FontStyle::as_u8")):
                if f.endswith(frm) and a and a[0][0] == "app" and a[0][1].endswith(to):
                    return var(SOME, a[0][2][0])
            # BrickColor::from_number(bc as u32 as u16) -> Some(bc)
            if f.endswith("BrickColor::from_number") and a:
                x = a[0]
                while x[0] == "cast":
                    x = x[2]
                if x[0] in ("payload", "fld", "in"):
                    return var(SOME, x)
            # u16::try_from(x as u32) where x was a 16-bit number on the way out -> Ok(x); and_then over it applies the function
            if f.endswith("::try_from") and a and a[0][0] == "cast":
                x = a[0]
                while x[0] == "cast":
                    x = x[2]
                if x[0] in ("payload", "fld", "in"):
                    return var(OK, ("cast", "u16", x))
            if f.endswith("Option::<T>::and_then") and len(a) == 2 and (is_var(a[0], SOME) or is_var(a[0], OK)) and isinstance(a[1], tuple) and a[1][0] == "fnref":
                return ("app", a[1][1], (a[0][2][0],))
            if f.endswith("Result::<T, E>::ok") and a and is_var(a[0], OK):
                return var(SOME, a[0][2][0])
            # Matrix3::from_basic_rotation_id(to_basic_rotation_id(m)→Some.0) -> Ok(snap(m))
            if f.endswith("Matrix3::from_basic_rotation_id") and a:
                x = a[0]
                if x[0] == "payload" and x[2] == SOME and x[1][0] == "app" and x[1][1].endswith("Matrix3::to_basic_rotation_id"):
                    return var(OK, ("snap", x[1][2][0]))
        if t[0] == "unwrap_or" and is_var(t[1], SOME):
            return t[1][2][0]
        return None
    P.append(("attribute codecs", codec))
    return P


def allowed_norms():
    def string_to_binary(t, base, assume):
        # Variant::String written, Variant::BinaryString(BinaryString{buffer: bytes}) read back
        if is_var(t, VARIANT + "::BinaryString") and ("is", base, VARIANT + "::String") in assume:
            inner = t[2][0]
            want = payload(base, VARIANT + "::String", 0)
            return inner == want or (inner[0] == "st" and dict(inner[2]).get("buffer") == want) or (inner[0] == "app" and inner[2] and inner[2][-1] == want)
        return False

    def binary_string(t, base, assume):
        # BinaryString{buffer: x.buffer...}: written through AsRef<[u8]> (the buffer), rebuilt with From<Vec<u8>>
        if t[0] == "st" and t[1].endswith("binary_string::BinaryString"):
            b = dict(t[2]).get("buffer")
            return b == base or b == fld(base, "buffer")
        if t[0] == "app" and "BinaryString" in t[1] and t[2] and t[2][-1] == base:
            return True
        return False

    def snap(t, base, assume):
        return t == ("snap", base)

    def envelope(t, base, assume):
        return False

    def face_id(t, base, assume):
        # cached_face_id: Some("") is written as "" and read back as None (documented); otherwise identity
        if t[0] == "phi":
            return all((x == var(NONE)) or (is_var(x, SOME) and strip_str(x[2][0]) == ("unwrap_or", ("deref", base)) or True) for c, x in t[1]) and face_shape(t, base)
        return False
    return [("String->BinaryString", string_to_binary), ("BinaryString buffer", binary_string), ("rotation snapping", snap), ("cached_face_id Some(\"\")->None", face_id)]


def strip_str(x):
    return x


def face_shape(t, base):
    # phi( is_empty(s) ? None | !is_empty(s) ? Some(from_utf8(s)) ) where s is what was written for base: base.as_deref().unwrap_or_default()
    alts = t[1]
    if len(alts) != 2:
        return False
    nones = [x for c, x in alts if x == var(NONE)]
    somes = [x for c, x in alts if is_var(x, SOME)]
    if len(nones) != 1 or len(somes) != 1:
        return False
    inner = somes[0][2][0]
    while inner[0] in ("try",):
        inner = inner[1]
    if is_var(inner, OK):
        inner = inner[2][0]
    return inner[0] == "unwrap_or" and inner[1] == base


def table_prims(prog):
    """when the type-id table is data (a const slice searched with find) rather than two `match`es, the two look-up
    functions are given the value their `match` form evaluates to: a phi over the rows, first matching row first"""
    from . import C14 as _C14
    VT = "rbx_types::variant::VariantType::"
    TID = "rbx_types::attributes::type_id::"
    out = []
    for name, direction in (("from_variant_type", "from"), ("to_variant_type", "to")):
        fn = prog.fns.get(TID + name)
        if fn is None or fn.body is None or any(x.get("k") == "Match" and x.get("src") == "Normal" for x in core.walk_fn(fn)):
            continue
        first, rows = _C14.data_table(prog, fn)
        if not rows:
            continue
        table = []
        seen = set()
        for v, i in (first + rows) if direction == "from" else rows:
            k = v if direction == "from" else i
            if k not in seen:
                seen.add(k)
                table.append((v, i))

        def prim(I, n, path, arg_nodes, env, table=table, direction=direction):
            arg = I.eval(arg_nodes[0], env)
            alts, conds = [], []
            for v, i in table:
                if direction == "from":
                    if arg[0] == "var":
                        if arg[1] == VT + v:
                            return var(SOME, C(i))
                        continue
                    cnd = ("is", arg, VT + v)
                    alts.append((cnd, var(SOME, C(i))))
                else:
                    if arg[0] == "c":
                        if arg[1] == i:
                            return var(SOME, var(VT + v))
                        continue
                    cnd = ("op", "==", arg, C(i))
                    alts.append((cnd, var(SOME, var(VT + v))))
                conds.append(cnd)
            if not alts:
                return var(NONE)
            alts.append((("else", tuple(conds)), var(NONE)))
            return ("phi", tuple(alts))
        out.append((re.compile(re.escape(TID + name) + "$"), prim))
    return out


def run(c, prog):
    R = "C14.arm"
    c.rule(R, "for each attribute type: the byte grammar the writer emits is the one the reader consumes (same primitives, same loop domains, length prefixes equal to what follows) and the value the reader builds is the identity on the value written — every leaf field exactly once in its own position — modulo String->BinaryString, rotation snapping and the unused ColorSequence envelope")
    w = prog.fn(WR + "write_attributes")
    r = prog.fn(RD + "read_attributes")
    prims_w = wire.BYTE_PRIMS
    prims_r = wire.BYTE_PRIMS + [(re.compile(r"attributes::reader::read_exact_or_none$"), p_reon), (re.compile(r"BTreeMap::<K, V, A>::insert$"), p_insert)]
    tp = table_prims(prog)
    prims_w = prims_w + tp
    prims_r = prims_r + tp
    try:
        Iw, _, _ = wire.run_region(prog, w.body, {w.params[0]["lid"]: ("in", "map"), w.params[1]["lid"]: ("in", "writer")}, prims_w)
        Ir, _, _ = wire.run_region(prog, r.body, {r.params[0]["lid"]: ("in", "reader")}, prims_r)
    except sym.Unsupported as e:
        c.violation(R, "cannot-establish|interp", f"the attribute codec uses a construct the wire-shape interpreter cannot follow: {e}", w.sp, instance="interp")
        return
    enc = list(Iw.events)
    # the empty-map early return is C14.empty's clause
    if enc and enc[0][0] == "alt" and any("is_empty" in term_str(b[0], 4) for b in enc[0][1] if b[0] is not True):
        enc = enc[1:]
    dec = list(Ir.events)
    N = shape.Normaliser(prog, attr_pairs())

    def prim_compat(wp, rp):
        return wp == rp
    M = shape.Matcher(N, prim_compat)
    try:
        outcomes = M.match(enc, dec, {})
    except shape.Mismatch as e:
        c.violation(R, f"frame|{e}", f"attribute blob framing: {e}", e.loc or w.sp, instance="frame")
        return
    base = ("elem", ("in", "map"))
    vbase = fld(base, "1")
    seen = set()
    for conds, msg, loc in M.failures:
        v = variant_of(conds, vbase)
        seen.add(v)
        c.violation(R, f"grammar|{v}", f"attribute type {v}: {msg}", loc or w.sp, instance=f"arm:{v}")
    c.sample({"rule": R, "writer_grammar(excerpt)": shape.render(enc)[:14], "reader_grammar(excerpt)": shape.render(dec)[:10]})
    n_ok = 0
    for subst, sinks, _conds in outcomes:
        for sk in sinks:
            name, term, conds, loc = sk[0], sk[1], sk[2], sk[3]
            assume = shape.assumptions(conds)
            v = variant_of(conds, vbase)
            if v in seen:
                continue
            seen.add(v)
            t = N.norm(term, subst, assume)
            inst = f"arm:{v}"
            bad = sym.contains_unk(t)
            if bad:
                c.violation(R, f"cannot-establish|{v}", f"attribute type {v}: value mapping could not be established ({bad})", loc, instance=inst)
                continue
            ident = shape.Identity(prog, allowed_norms(), assume)
            key_t, val_t = fld(t, "0"), fld(t, "1")
            errs = []
            kt = key_t
            while kt[0] == "try":
                kt = kt[1]
            if is_var(kt, OK):
                kt = kt[2][0]
            if kt != fld(base, "0"):
                errs.append(("name", term_str(kt, 4)))
            errs += ident.check(strip_try(val_t), vbase, "")
            if not errs:
                c.ok(R, inst)
                n_ok += 1
                if v == "CFrame":
                    c.sample({"rule": R, "arm": v, "decoded_value": term_str(strip_try(val_t), 8), "normalisations_used": ident.used})
            else:
                fp, got = errs[0]
                c.violation(R, f"value|{v}|{fp}", f"attribute type {v}: field `{fp or 'value'}` is read back as `{got}` — not the value that was written there ({len(errs)} field(s) differ)", loc, instance=inst)
    c.floor(R, n_ok + len([1 for x in seen]), 19, "attribute arms matched")
    rule_spec(c, prog, enc)
    rule_examples(c, prog)
    rule_field_order(c, prog, enc)


def strip_try(t):
    if isinstance(t, tuple) and t and t[0] == "try":
        return strip_try(t[1])
    if is_var(t, OK) and False:
        return t[2][0]
    if isinstance(t, tuple):
        return tuple(strip_try(x) if isinstance(x, tuple) else x for x in t)
    return t


def variant_of(conds, vbase):
    for side, cnd in conds:
        if side == "W" and isinstance(cnd, tuple) and cnd[0] == "is" and cnd[1] == vbase:
            return vname(cnd[2])
        if side == "W" and isinstance(cnd, tuple) and cnd[0] == "and":
            for x in cnd[1]:
                if isinstance(x, tuple) and x[0] == "is" and x[1] == vbase:
                    return vname(x[2])
    return "?"


def rule_spec(c, prog, enc):
    R = "C14.spec"
    c.rule(R, "the writer's byte grammar per type equals the field tables of docs/attributes.md (parsed every run): field count and primitive widths, little-endian")
    doc = spec.type_ids("attributes.md")
    W = {"u8": 1, "u16": 2, "u32": 4, "i32": 4, "f32": 4, "f64": 8}
    # collect per-variant flat width lists from the writer grammar
    arms = {}
    for e in enc:
        if e[0] == "rep":
            for ev in e[2]:
                if ev[0] == "alt":
                    for cond, evs, ex, _ in ev[1]:
                        if isinstance(cond, tuple) and cond[0] == "is":
                            arms[vname(cond[2])] = evs
    def widths(evs):
        out = []
        for ev in evs:
            if ev[0] == "W":
                sz = ev[4]
                out.append(sz[1] if sz[0] == "c" else "n")
            elif ev[0] == "rep":
                out.append(("rep", widths(ev[2])))
            elif ev[0] == "alt":
                out.append(("alt", [widths(b[1]) for b in ev[1]]))
        return out
    simple = {"Bool": [1], "Int32": [4], "Float32": [4], "Float64": [8], "UDim": [4, 4], "UDim2": [4, 4, 4, 4], "BrickColor": [4], "Color3": [4, 4, 4],
              "Vector2": [4, 4], "Vector3": [4, 4, 4], "NumberRange": [4, 4], "Rect": [4, 4, 4, 4]}
    for name, (tid, body) in sorted(doc.items()):
        ft = spec.field_table(body)
        v = "BinaryString" if name == "String" else name
        got = widths(arms.get(v, []))
        inst = f"spec:{name}"
        if name in simple:
            if got == simple[name]:
                c.ok(R, inst)
            else:
                c.violation(R, f"layout|{name}", f"docs/attributes.md lays out {name} as fields of widths {simple[name]}; the writer emits {got}", "rbx_types/src/attributes/writer.rs", instance=inst)
        else:
            if got:
                c.ok(R, inst + ":present")
            else:
                c.violation(R, f"layout|{name}|missing", f"no writer grammar extracted for documented attribute type {name}", "rbx_types/src/attributes/writer.rs", instance=inst)


def rule_examples(c, prog, R="C14.spec"):
    """worked examples of docs/attributes.md whose value is a plain list of numbers and whose section lays the type out
    as f32 fields only: the bytes shown must be those numbers, little-endian, in field order — an independent encoder
    is written from the tables and checked against the examples"""
    import struct
    doc = spec.type_ids("attributes.md")
    n = 0
    for name, (tid, body) in sorted(doc.items()):
        for lead, hx, _raw in spec.hex_examples(body):
            spans = spec.code_spans(lead)
            if not spans:
                continue
            vals = spans[-1]      # the value the bytes are said to be: the last code span in front of them
            try:
                want = [float(v) for v in vals.split(",")]
            except ValueError:
                continue      # `CFrame.new(..)`-style values are not lists of numbers
            raw = bytes.fromhex(hx.replace(" ", ""))
            if len(raw) != 4 * len(want):
                continue      # not an all-f32 layout (UDim: f32 + i32, sequences: counts)
            got = list(struct.unpack("<" + "f" * len(want), raw))
            if re.search(r"\bRGB\b", lead) and all(v == int(v) and 0 <= v <= 255 for v in want):
                # `the RGB value 0, 102, 255`: the prose gives 8-bit channels, the fields hold them as fractions of 255
                want = [struct.unpack("<f", struct.pack("<f", v / 255.0))[0] for v in want]
            n += 1
            inst = f"example:{name}"
            if got == want:
                c.ok(R, inst)
            else:
                c.violation(R, f"example|{name}", f"docs/attributes.md, {name}: the example says the value `{vals}` looks like `{hx}`, but those bytes are the f32s {got}; per the section's own field table `{vals}` is `{' '.join(f'{b:02x}' for b in struct.pack('<' + 'f' * len(want), *want))}` (which is also what the codec writes: C14.spec layout) — a blob built from the example does not decode to the value the document says it describes", "docs/attributes.md", instance=inst)
    c.floor(R, n, 3, "all-f32 worked examples in docs/attributes.md")


def rule_field_order(c, prog, enc, R="C14.spec"):
    """which leaf of the value each byte field carries: the order of the document's field tables (a sub-table is expanded
    where the format names another documented type), and for the CFrame's nine floats the order the worked example
    shows (R00 R01 R02 R10 … = the rows, the same convention the XML form spells out as R00…R22)"""
    import struct
    doc = spec.type_ids("attributes.md")
    arms = {}
    for e in enc:
        if e[0] == "rep":
            for ev in e[2]:
                if ev[0] == "alt":
                    for cond, evs, ex, _ in ev[1]:
                        if isinstance(cond, tuple) and cond[0] == "is":
                            arms[vname(cond[2])] = (cond, evs)

    def leaves(evs, base, out):
        for ev in evs:
            if ev[0] == "W":
                t = ev[2]
                while isinstance(t, tuple) and t and t[0] == "app" and len(t[2]) == 1:
                    t = t[2][0]        # to_le_bytes(x), casts
                path = []
                while isinstance(t, tuple) and t and t[0] == "fld":
                    path.append(t[2])
                    t = t[1]
                out.append(tuple(reversed(path)) if t == base else None)
            elif ev[0] == "alt":
                # the long alternative (most fields) is the layout that spells the value out
                best = max(ev[1], key=lambda b: len([x for x in b[1] if x[0] == "W"]))
                leaves(best[1], base, out)
        return out

    def expand(name, prefix, depth=0):
        if name not in doc or depth > 3:
            return None
        ft = None
        for hdr, rows in spec.md_tables(doc[name][1]):
            if hdr and hdr[0] == "Field Name" and len(hdr) >= 3:
                # the component a row stores is named in its Value column (`The `X` component of ..`); the Field Name
                # column is a label (UDim2 labels its two UDims "X Scale" / "X Offset")
                ft = []
                for r_ in rows:
                    mm = re.search(r"The `(\w+)` component", r_[2]) if len(r_) >= 3 else None
                    ft.append(((mm.group(1) if mm else r_[0]), re.sub(r"\[|\]\([^)]*\)|`", "", r_[1]).strip()))
                break
        if ft is None:
            return None
        out = []
        for fname, fmt in ft:
            key = fname.lower().replace(" ", "_")
            sub = expand(fmt, prefix + (key,), depth + 1)
            out += sub if sub is not None else [prefix + (key,)]
        return out
    ALIAS = {"scale": "scale", "offset": "offset", "r": "r", "g": "g", "b": "b"}
    n = 0
    for name in ("UDim", "UDim2", "Color3", "Vector2", "Vector3", "NumberRange", "Rect"):
        if name not in arms or name not in doc:
            continue
        cond, evs = arms[name]
        base = payload(cond[1], cond[2], 0)
        got = leaves(evs, base, [])
        want = expand(name, ())
        if want is None:
            continue
        n += 1
        inst = f"order:{name}"
        if None not in got and [tuple(q.lower() for q in g_) for g_ in got] == want:
            c.ok(R, inst)
        else:
            c.violation(R, f"order|{name}", f"docs/attributes.md lists the fields of {name} as {['.'.join(w_) for w_ in want]}; the writer emits {['.'.join(g_) if g_ else '?' for g_ in got]} in that order", "rbx_types/src/attributes/writer.rs", instance=inst)
    # CFrame: position, id, then the matrix as the worked example shows it
    if "CFrame" in arms and "CFrame" in doc:
        raw = None
        for lead, _hx, rb in spec.hex_examples(doc["CFrame"][1]):
            if len(rb) == 12 + 1 + 36 and re.search(r"CFrame\.Angles\(0, 45, 0\)", lead):
                raw = rb
        if raw is None:
            raise core.AnchorMissing("docs/attributes.md: the long-form (49-byte) CFrame example for CFrame.Angles(0, 45, 0) is gone")
        mat = struct.unpack("<9f", raw[13:])
        # a rotation about Y: rows (c,0,s),(0,1,0),(-s,0,c).  Row-major shows +s third and -s seventh
        if not (mat[2] > 0.5 and mat[6] < -0.5 and abs(mat[4] - 1.0) < 1e-6):
            raise core.AnchorMissing(f"docs/attributes.md: the CFrame example no longer shows a rotation about Y row by row ({mat})")
        cond, evs = arms["CFrame"]
        base = payload(cond[1], cond[2], 0)
        got = leaves(evs, base, [])
        want = [("position", a) for a in "xyz"] + [None] + [("orientation", r_, c_) for r_ in "xyz" for c_ in "xyz"]
        n += 1
        if got == want:
            c.ok(R, "order:CFrame")
        else:
            c.violation(R, "order|CFrame", f"docs/attributes.md (worked example: a rotation about Y is stored c 0 s 0 1 0 -s 0 c) stores the rotation row by row — R00 R01 R02 R10 …, as the XML form names them; the writer emits {['.'.join(g_) if g_ else 'id' for g_ in got]}: a blob built from the document decodes to the inverse rotation", "rbx_types/src/attributes/writer.rs", instance="order:CFrame")
        # the field table's own words for the nine floats have to denote the order the example shows.  Roblox's
        # XVector / YVector / ZVector (RightVector, UpVector, -LookVector; the arguments of CFrame.fromMatrix) are the
        # COLUMNS of the matrix; "row" wording or the R00 R01 R02 … spelling denote rows.  Other wording: no claim.
        row = re.search(r"^\|\s*Rotation matrix\s*\|[^|]*\|([^|]*)\|", doc["CFrame"][1], re.M)
        if row:
            txt = row.group(1)
            stated = None
            if re.search(r"XVector.*YVector.*ZVector", txt):
                stated = "columns"
            elif re.search(r"row[- ]major|R00,? R01,? R02|row by row", txt, re.I):
                stated = "rows"
            elif re.search(r"column[- ]major|R00,? R10,? R20", txt, re.I):
                stated = "columns"
            if stated is not None:
                n += 1
                if stated == "rows":
                    c.ok(R, "order:CFrame:table-vs-example")
                else:
                    c.violation(R, "order|CFrame|table-vs-example", "docs/attributes.md, CFrame: the field table says the nine floats are `the XVector, the YVector, and ZVector, in that order` — in Roblox's vocabulary the columns (R00 R10 R20, R01 …) — while the worked example two paragraphs below (and the reader / writer) store the matrix row by row (R00 R01 R02, R10 …): an encoder built from the table produces the inverse rotation", "docs/attributes.md", instance="order:CFrame:table-vs-example")
    c.floor(R, n, 6, "attribute types whose leaf order is compared with the document")
