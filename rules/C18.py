"""C18 — SharedString interning under concurrency.  LOCK rules on the MIR of rbx_types::shared_string:
C18.cta (check-then-act across the critical section), C18.reent (re-entrancy / drop / panic inside the
critical section), C18.eq (identity derives from the hash), C18.new (constructor decision table)."""
import re

from sa import core, decision, discipline as D, flow

MOD = "rbx_types::shared_string"
SS = MOD + "::SharedString"
LOCK_RX = re.compile(r"std::sync::(poison::)?(mutex::)?Mutex::<T>::lock$")
LIVENESS_RX = re.compile(r"alloc::sync::(Weak|Arc)::<T(, A)?>::(upgrade|strong_count|weak_count)$")
REMOVE_RX = re.compile(r"(HashMap::<K, V, S(, A)?>::(remove|remove_entry|insert|retain|clear|drain)|OccupiedEntry::<'a, K, V(, A)?>::(insert|remove|remove_entry))$")
VACANT_RX = re.compile(r"VacantEntry::<'a, K, V(, A)?>::insert$")


def lock_regions(fn):
    """[(lock block, set(region blocks), set(guard drop blocks))]"""
    out = []
    if not fn.mir:
        return out
    cfg = D.CFG(fn)
    for i, cal, gen, t in D.mir_calls(fn):
        if cal and LOCK_RX.search(cal):
            drops = {j for j, bb in enumerate(cfg.blocks) if bb["term"]["k"] == "drop" and "MutexGuard" in bb["term"].get("dty", "") and not bb.get("cleanup")}
            region = set()
            stack = list(t.get("targets", []))
            while stack:
                x = stack.pop()
                if x in region:
                    continue
                region.add(x)
                if x in drops:
                    continue
                stack.extend(cfg.succ[x])
            out.append((i, region, drops, cfg))
    return out


def liveness_blocks(fn, region):
    """blocks (inside region) whose call tests whether the entry's buffer is alive: Weak::upgrade / strong_count called
    directly, or handed as a function item to a combinator (`.and_then(Weak::upgrade)`)"""
    out = set()
    # calls that are handed a closure of this function whose body makes the test (`.map_or(false, |e| e.strong_count() == 0)`),
    # matched to their MIR call by span
    carriers = set()
    if fn.body is not None:
        for n in core.walk_fn(fn, into_closures=False):
            if n.get("k") in ("Call", "MethodCall"):
                for a in n.get("args") or []:
                    a0 = core.strip(a)
                    if a0.get("k") == "Closure" and any(y.get("k") in ("Call", "MethodCall") and LIVENESS_RX.search(core.callee(y) or "") for y in core.walk(a0["body"])):
                        carriers.add(n.get("sp"))
    for i, cal, gen, t in D.mir_calls(fn):
        if i not in region:
            continue
        if cal and LIVENESS_RX.search(cal):
            out.add(i)
        elif any(a.get("k") == "const" and a.get("fn") and LIVENESS_RX.search(a["fn"]) for a in t.get("args", [])):
            out.add(i)
        elif t.get("sp") in carriers:
            out.add(i)
    return out


def some_edges(fn, cfg, blocks):
    """targets reached when the Option produced by one of `blocks` (call blocks) is Some"""
    out = set()
    dests = {cfg.blocks[b]["term"]["dest"]["l"] for b in blocks if cfg.blocks[b]["term"].get("dest")}
    # follow plain moves of the result
    for _ in range(3):
        for bb in cfg.blocks:
            for st in bb["stmts"]:
                if st["k"] == "assign" and st.get("rk") == "use" and st.get("ops") and st["ops"][0].get("k") == "place" and st["ops"][0]["l"] in dests and not st["ops"][0].get("proj") and not st["lhs"].get("proj"):
                    dests.add(st["lhs"]["l"])
    for bb in cfg.blocks:
        dl = None
        for st in bb["stmts"]:
            if st["k"] == "assign" and st.get("rk") == "discr" and st.get("ops") and st["ops"][0].get("l") in dests:
                dl = st["lhs"]["l"]
        t = bb["term"]
        if dl is not None and t["k"] == "switch" and t.get("discr", {}).get("l") == dl:
            vals, tg = t.get("vals", []), t.get("targets", [])
            for v, b in zip(vals, tg):
                if v == "1":
                    out.add(b)
            if vals == ["0"] and len(tg) == 2:
                out.add(tg[1])
    return out


def run(c, prog):
    fns = [f for f in prog.fns.values() if f.path.startswith(MOD) or f.path.startswith(f"<{MOD}")]
    locking = [f for f in fns if f.mir and lock_regions(f)]
    R = "C18.cta"
    c.rule(R, "every removal from / replacement in the intern table happens inside a critical section and is dominated, inside that same section, by a liveness test of the entry (Weak::upgrade / strong_count); a liveness decision taken before lock() does not count")
    c.floor(R, len(locking), 2, "functions taking the intern-table lock")
    n_mut = 0
    for fn in sorted(locking, key=lambda f: f.path):
        for lock_bb, region, drops, cfg in lock_regions(fn):
            dom = cfg.dominators()
            live = liveness_blocks(fn, region)
            for i, cal, gen, t in D.mir_calls(fn):
                if not cal or i not in region:
                    continue
                if REMOVE_RX.search(cal):
                    n_mut += 1
                    op = cal.rsplit("::", 1)[-1]
                    inst = f"{fn.path}|{core.short(cal)}"
                    # the decision to mutate depends on a liveness test made inside this critical section:
                    # either the test dominates the mutation, or the mutation is control-dependent on a branch
                    # whose condition is derived (explicitly or through a flag set under such a branch) from it
                    seeds = {t2["dest"]["l"] for j, _c, _g, t2 in D.mir_calls(fn) if j in live and t2.get("dest")}
                    _T, ctl = D.decision_taint(fn, cfg, seeds)
                    if any(l in dom.get(i, ()) for l in live) or i in ctl:
                        c.ok(R, inst)
                    else:
                        c.violation(R, f"{fn.path}|{core.short(cal)}|no-liveness-test", f"{fn.path}: `{core.short(cal)}` on the intern table is not preceded, inside the same critical section, by a liveness test of the entry (Weak::upgrade/strong_count). The decision that the buffer is dead was taken before the lock was acquired, so a concurrent SharedString::new that re-populated the entry in between has its live entry removed — later equal strings allocate a second buffer", t.get("sp", ""), instance=inst)
                elif VACANT_RX.search(cal):
                    n_mut += 1
                    c.ok(R, f"{fn.path}|VacantEntry::insert")
            # table mutations outside any region
        regions_all = set().union(*[r for _, r, _, _ in lock_regions(fn)])
        for i, cal, gen, t in D.mir_calls(fn):
            if cal and (REMOVE_RX.search(cal) or VACANT_RX.search(cal)) and i not in regions_all:
                c.violation(R, f"{fn.path}|{core.short(cal)}|outside-lock", f"{fn.path}: `{core.short(cal)}` is outside the critical section", t.get("sp", ""))
    c.floor(R, n_mut, 2, "intern-table mutation sites (>= one removal in Drop, one insertion in new)")
    # the static is used only by the locking functions
    users = set()
    for f in prog.fns.values():
        if f.body is None:
            continue
        for n in core.walk_fn(f):
            if n.get("k") == "Path" and n.get("def") == MOD + "::STRING_CACHE":
                users.add(f.path)
    extra = {u for u in users if u not in {f.path for f in locking} and "STRING_CACHE" not in u}
    if extra:
        c.violation(R, "static|users", f"STRING_CACHE is used by {sorted(extra)} without an analysed critical section", "")
    else:
        c.ok(R, "static:users")

    R = "C18.reent"
    c.rule(R, "inside a critical section: no call that can reach the intern-table lock again, no drop of a SharedString, no panic-capable call (the mutex would be poisoned); Drop returns instead of panicking on a poisoned lock")
    g = flow.CallGraph(prog)
    lockers = {f.path for f in locking}
    for fn in sorted(locking, key=lambda f: f.path):
        for lock_bb, region, drops, cfg in lock_regions(fn):
            for i in sorted(region):
                t = cfg.blocks[i]["term"]
                if t["k"] == "call":
                    cal = t.get("inst") or t.get("fn") or ""
                    reach = g.reach([cal]) if cal in g.edges else {}
                    if cal in lockers or any(x in lockers for x in reach):
                        c.violation(R, f"{fn.path}|reenter|{core.short(cal)}", f"{fn.path} calls {cal} while holding the intern-table lock; that call can take the same non-reentrant mutex (deadlock)", t.get("sp", ""), instance=f"{fn.path}|call|{core.short(cal)}")
                    elif flow.panic_kind_of_callee(t.get("fn") or ""):
                        # the unwrap applied to the lock result itself only panics if the mutex is already poisoned
                        args = t.get("args", [])
                        from_lock = False
                        for a in args:
                            if a.get("k") == "place":
                                src = cfg.blocks[lock_bb]["term"]["dest"]["l"]
                                if a["l"] == src:
                                    from_lock = True
                                for st in cfg.blocks[i]["stmts"]:
                                    if st["k"] == "assign" and st["lhs"]["l"] == a["l"] and st.get("ops") and st["ops"][0].get("l") == src:
                                        from_lock = True
                        inst = f"{fn.path}|panic|{core.short(t.get('fn') or '')}"
                        if from_lock:
                            c.ok(R, inst + "|on-lock-result")
                        else:
                            c.violation(R, inst, f"{fn.path}: `{core.short(t.get('fn') or '')}` can panic while the intern-table lock is held, poisoning the mutex for every other thread", t.get("sp", ""), instance=inst)
                    else:
                        c.ok(R, f"{fn.path}|call|{core.short(cal)}")
                elif t["k"] == "drop" and not cfg.blocks[i].get("cleanup"):
                    dty = t.get("dty", "")
                    inst = f"{fn.path}|drop|{dty[:60]}"
                    if "shared_string::SharedString" in dty and "SharedStringHash" not in dty:
                        c.violation(R, f"{fn.path}|drop-in-region", f"{fn.path} drops a value of type `{dty}` while holding the lock; SharedString::drop locks the same mutex (deadlock)", t.get("sp", ""), instance=inst)
                    else:
                        c.ok(R, inst)
    # Drop: poisoned lock => return
    drop = prog.impl_fn("core::ops::drop::Drop", SS, "drop")
    sites = flow.panic_sites(drop)
    bad = [s for s in sites if not (s["kind"] == "unwrap" and "take" in s["fp"])]
    if bad:
        c.violation(R, "drop|panics", f"SharedString::drop contains panic-capable constructs {[s['fp'] for s in bad]} (a panic while dropping aborts or poisons)", drop.sp, instance="drop:no-panic")
    else:
        c.ok(R, "drop:no-panic")
    arc_calls = [core.callee(n) for n in core.walk_fn(drop) if n.get("k") in ("Call", "MethodCall") and (core.callee(n) or "").startswith("alloc::sync::Arc")]
    names = [x.rsplit("::", 1)[-1] for x in arc_calls]
    if names == ["into_inner"]:
        c.ok(R, "drop:last-release-via-into_inner")
    else:
        c.violation("C18.cta", "drop|last-release|" + ",".join(names), f"SharedString::drop decides `I released the last handle` with Arc::{names}; only Arc::into_inner guarantees that exactly one of several concurrent last drops sees the value (with try_unwrap / strong_count two threads can both conclude they are not last, and the dead table entry is never removed)", drop.sp, instance="drop:last-release-via-into_inner")
    lk = [n for n in core.walk_fn(drop) if n.get("k") == "MethodCall" and n["m"] == "lock"]
    ok = False

    def quiet(e):
        """nothing happens: no call except constructors of unit-like values"""
        return not any(x.get("k") in ("Call", "MethodCall") for x in core.walk(e))
    for n in core.walk_fn(drop):
        if n.get("k") == "Match" and n.get("src") == "Normal" and core.strip(n["e"]).get("m") == "lock":
            for arm in n["arms"]:
                if "Err" in core.pat_str(arm["pat"]) and (any(x.get("k") == "Ret" for x in core.walk(arm["body"])) or quiet(arm["body"])):
                    ok = True
        # `if let Ok(mut cache) = TABLE.lock() { .. }` with nothing (or nothing that calls) on the other side
        if n.get("k") == "If":
            cnd = core.strip(n["c"])
            if cnd.get("k") == "LetExpr" and core.strip(cnd["init"]).get("m") == "lock" and "Ok" in core.pat_str(cnd["pat"]) and ("f" not in n or quiet(n["f"])):
                ok = True
    # `let Ok(cache) = TABLE.lock() else { return };`
    for st in core.walk_lets(drop.body):
        if st.get("els") is not None and core.strip(st.get("init") or {}).get("m") == "lock" and "Ok" in core.pat_str(st["pat"]):
            ok = True
    if ok:
        c.ok(R, "drop:poison-returns")
    else:
        c.violation(R, "drop|poison", "SharedString::drop no longer returns quietly when the lock is poisoned", drop.sp, instance="drop:poison-returns")

    R = "C18.eq"
    c.rule(R, "Hash, PartialEq and the ordering wrapper all derive from the blake3 hash field; `data` is emptied only by Drop; SharedString values are built only by new() (and Clone)")
    eq = prog.impl_fn("core::cmp::PartialEq", SS, "eq")
    b = core.strip(eq.body)
    while b.get("k") == "Block" and not b["b"]["stmts"] and "expr" in b["b"]:
        b = core.strip(b["b"]["expr"])
    plids = [prm.get("lid") for prm in eq.params]
    sides = sorted([core.place_root_lid(b["l"]), core.place_root_lid(b["r"])], key=lambda x: plids.index(x[0]) if x[0] in plids else 9) if b.get("k") == "Binary" else []
    ok = b.get("k") == "Binary" and b["op"] == "==" and len(plids) == 2 and sides == [(plids[0], ["hash"]), (plids[1], ["hash"])]
    if ok:
        c.ok(R, "eq:hash-field")
    else:
        c.violation(R, "eq|body", f"SharedString::eq is no longer `self.hash == other.hash` ({core.fingerprint(b, 5)}): equal contents may compare unequal (e.g. pointer identity breaks when two buffers coexist)", eq.sp, instance="eq:hash-field")
    hs = prog.impl_fn("core::hash::Hash", SS, "hash")
    fps = [core.fingerprint(n, 5) for n in core.walk_fn(hs) if n.get("k") == "MethodCall"]
    if any("self.hash" in f for f in fps) and not any("self.data" in f for f in fps):
        c.ok(R, "hash:hash-field")
    else:
        c.violation(R, "hash|body", f"SharedString::hash no longer feeds only the blake3 hash field: {fps}", hs.sp, instance="hash:hash-field")
    # data field mutations
    muts = []
    for f in prog.lib_fns():
        for m in D.field_mutations(f):
            if m["field"] == SS + ".data" or m["field"] == SS + ".hash":
                muts.append((f.path, m["field"], m["how"]))
    okm = all(p == drop.path and h.endswith("::take") for p, fld, h in muts)
    if okm and muts:
        c.ok(R, "data:only-drop-empties")
    else:
        c.violation(R, "data|mutation", f"SharedString fields are mutated at {muts}; only Drop may empty `data` (data() unwraps it)", "", instance="data:only-drop-empties")
    aggs = []
    for f in prog.lib_fns():
        if D.aggregates(f, SS):
            aggs.append(f.path)
    allowed = {SS + "::new", f"<{SS} as core::clone::Clone>::clone"}
    if set(aggs) <= allowed and SS + "::new" in aggs:
        c.ok(R, "constructors")
    else:
        c.violation(R, "constructors|extra", f"SharedString values are constructed in {sorted(set(aggs) - allowed)} besides new()/Clone: such values bypass interning", "", instance="constructors")
    a = prog.adt(SS)
    if all(not f["vis"].startswith("Public") for f in a["variants"][0]["fields"]):
        c.ok(R, "fields-private")
    else:
        c.violation(R, "fields|public", "SharedString has public fields", a["sp"], instance="fields-private")

    R = "C18.new"
    c.rule(R, "SharedString::new (MIR, inside its single critical section): the table entry's liveness is tested (Weak::upgrade); the path on which it is alive shares the existing buffer and writes nothing; every other path to the end of the section writes a fresh weak handle into the table")
    new = prog.fn(SS + "::new")
    regs = lock_regions(new)
    if len(regs) == 1:
        c.ok(R, "new:one-critical-section")
    else:
        c.violation(R, "new|sections", f"SharedString::new takes the lock {len(regs)} times; lookup and insert must share one critical section (two threads could both miss and both insert)", new.sp, instance="new:one-critical-section")

    ok = False
    detail = {}
    if len(regs) == 1:
        lock_bb, region, drops, cfg = regs[0]
        live = liveness_blocks(new, region)
        live_edges = some_edges(new, cfg, live) & region
        writes = {i for i, cal, gen, t in D.mir_calls(new) if cal and i in region and (VACANT_RX.search(cal) or re.search(r"(HashMap::<K, V, S(, A)?>|OccupiedEntry::<'a, K, V(, A)?>)::insert$", cal))}
        starts = cfg.blocks[lock_bb]["term"].get("targets", [])
        detail["liveness-test"] = bool(live)
        detail["live=>share"] = bool(live_edges) and not any(w in cfg.reachable_from(e) for e in live_edges for w in writes)
        detail["dead-or-absent=>insert"] = bool(writes) and bool(live_edges) and all(cfg.must_pass(s0, writes | live_edges, drops | set(cfg.returns)) for s0 in starts)
        ok = all(detail.values())
    if ok:
        c.ok(R, "new:table", 3)
    else:
        c.violation(R, "new|table", f"SharedString::new no longer follows `entry live => share its buffer; entry dead or absent => write a fresh weak handle into the table` on every path of the critical section: {detail}", new.sp, instance="new:table")
    c.sample({"rule": "C18", "lock_regions": {f.path: [{"lock_bb": lb, "region": sorted(r), "guard_drops": sorted(d)} for lb, r, d, _ in lock_regions(f)] for f in locking}})
    c.not_decided += ["exhaustive interleavings (model checking is another family)", "emptiness of the table after quiescence is argued from C18.cta, not explored"]
