"""C01.arm — per wire type, the encoder arm of serialize_properties and the decoder arm(s) of decode_prop_chunk have dual
wire shapes and the decoded value is the identity on the encoded one (full field coverage), via sa.sym / sa.shape."""
import re

from sa import core, sym, shape, wire
from sa.sym import C, OK, SOME, NONE, ERR, UNIT, var, is_var, fld, payload, term_str, norm_dom
from . import common
from .common import vname, VARIANT

WR = "rbx_binary::core::RbxWriteExt::"
RD = "rbx_binary::core::RbxReadExt::"
ARRAY_PRIMS = {"interleaved_i32_array": "ilv_i32", "interleaved_u32_array": "ilv_u32", "interleaved_f32_array": "ilv_f32", "interleaved_i64_array": "ilv_i64",
               "referent_array": "ref_array", "interleaved_bytes": "ilv_bytes"}


def mk_write_prim(prim):
    def h(I, n, path, arg_nodes, env):
        I.eval(arg_nodes[0], env)
        t = I.eval(arg_nodes[1], env)
        if t[0] != "stream":
            try:
                t = I.to_stream(t)
            except sym.Unsupported:
                pass
        dom = t[1] if t[0] == "stream" else ("unk", "array domain")
        I.loop_stack.append(dom)
        el, evs, ex = I.sub_events(lambda: I.stream_elem(t) if t[0] == "stream" else ("unk", "array"))
        I.loop_stack.pop()
        I.emit(("W", prim, ("vec", (("seg", dom, el, None),)), core.loc(n), None))
        return var(OK, UNIT)
    return h


def mk_read_prim(prim):
    def h(I, n, path, arg_nodes, env):
        I.eval(arg_nodes[0], env)
        lid = wire.place_lid(arg_nodes[1])
        cur = I.eval(arg_nodes[1], env)
        if cur[0] == "vec" and len(cur[1]) == 1 and cur[1][0][0] == "fill":
            dom = ("count", cur[1][0][1])
        elif cur[0] == "vec" and len(cur[1]) == 1 and cur[1][0][0] == "seg":
            dom = cur[1][0][1]
        else:
            dom = ("unk", "array length")
        rid = I.fresh_read(prim, core.loc(n), dom)
        I.emit(("R", prim, rid, core.loc(n), None))
        if lid is None:
            raise sym.Unsupported("array read into a non-local")
        env[lid] = ("vec", (("seg", dom, ("rdelem", rid), None),))
        return var(OK, UNIT)
    return h


def p_add_property(I, n, path, arg_nodes, env):
    I.eval(arg_nodes[0], env)
    I.eval(arg_nodes[1], env)
    v = I.eval(arg_nodes[2], env)
    I.emit(("sink", "prop", v, core.loc(n)))
    return UNIT


def p_copy_from_slice(I, n, path, arg_nodes, env):
    dst = core.strip(arg_nodes[0])
    src = I.eval(arg_nodes[1], env)
    if dst.get("k") == "Index":
        base = core.strip(dst["l"])
        rng = I.eval(dst["r"], env)
        if base.get("res") == "local" and rng[0] == "st":
            d = dict(rng[2])
            lo = d.get("start", C(0))
            hi = d.get("end")
            cur = env.get(base["lid"])
            parts = cur[1] if cur and cur[0] == "concat" else ()
            total = None
            if cur and cur[0] == "vec" and len(cur[1]) == 1 and cur[1][0][0] == "fill":
                total = cur[1][0][1]
            elif cur and cur[0] == "concat":
                total = cur[2]
            if hi is None:
                hi = total
            env[base["lid"]] = ("concat", parts + ((lo, hi, src),), total)
            return UNIT
    raise sym.Unsupported("copy_from_slice target")


def p_to_writer(I, n, path, arg_nodes, env):
    v = I.eval(arg_nodes[0], env)
    lid = wire.place_lid(arg_nodes[1])
    if lid is None:
        raise sym.Unsupported("to_writer target")
    env[lid] = ("app", "rbx_types::attributes::Attributes::to_writer", (v,))
    return var(OK, UNIT)


def binary_prims():
    P = list(wire.BYTE_PRIMS)
    P.append((re.compile(r"attributes::Attributes::to_writer$"), p_to_writer))
    for k, v in ARRAY_PRIMS.items():
        P.append((re.compile(re.escape(WR + "write_" + k) + r"$"), mk_write_prim(v)))
        P.append((re.compile(re.escape(RD + "read_" + k) + r"$"), mk_read_prim(v)))
    P.append((re.compile(r"deserializer::state::add_property$"), p_add_property))
    P.append((re.compile(r"core::slice::<impl \[T\]>::copy_from_slice$"), p_copy_from_slice))
    return P


class BinInterp(wire.WireInterp):
    """sub-readers: `value.read_be_u32()` on a slice local consumes successive bytes of that term"""

    def __init__(self, *a, **kw):
        super().__init__(*a, **kw)
        self.subpos = {}


_FLAG_MASKS = {}


def flag_mask(prog, ty):
    """OR of the flag constants of a bit-set type of rbx_types (`Faces::RIGHT`, …): the bits a value of the type can have"""
    if ty in _FLAG_MASKS:
        return _FLAG_MASKS[ty]
    mod = {"Faces": "rbx_types::faces", "Axes": "rbx_types::axes"}[ty]
    mask = 0
    for path, f in prog.fns.items():
        if path.startswith(f"{mod}::{ty}::") and path.count("::") == 3 and path.rsplit("::", 1)[-1].isupper() and f.body is not None:
            try:
                t = wire.WireInterp(prog, prims=[], depth=4).eval(f.body, {})
            except (sym.Unsupported, sym.Exit):
                continue
            stack = [t]
            while stack:
                x = stack.pop()
                if isinstance(x, tuple) and x:
                    if x[0] == "c" and isinstance(x[1], int) and not isinstance(x[1], bool):
                        mask |= x[1]
                    stack.extend(y for y in x if isinstance(y, tuple))
    _FLAG_MASKS[ty] = mask
    return mask


def pairs(prog=None):
    P = shape.default_pairs()

    def codec(t):
        if t[0] == "app":
            f, a = t[1], t[2]
            # `T::from_bits(x.bits() & M)`: a mask that keeps every flag bit of T keeps x.bits()
            if prog is not None and a and a[0][0] == "op" and a[0][1] == "&" and f.endswith(("Faces::from_bits", "Axes::from_bits")):
                ty_ = "Faces" if "Faces" in f else "Axes"
                l_, r_ = a[0][2], a[0][3]
                if l_[0] == "c":
                    l_, r_ = r_, l_
                x_ = l_
                while x_[0] == "cast":
                    x_ = x_[2]
                if r_[0] == "c" and isinstance(r_[1], int) and x_[0] == "app" and x_[1].endswith(f"{ty_}::bits"):
                    fm = flag_mask(prog, ty_)
                    if fm and (r_[1] & fm) == fm:
                        a = (l_,) + tuple(a[1:])
            for frm, to in (("FontWeight::from_u16", "FontWeight::as_u16"), ("FontStyle::from_u8", "FontStyle::as_u8"), ("Faces::from_bits", "Faces::bits"),
                            ("Axes::from_bits", "Axes::bits")):
                if f.endswith(frm) and a and a[0][0] == "app" and a[0][1].endswith(to):
                    return var(SOME, a[0][2][0])
            if f.endswith("SecurityCapabilities::from_bits") and a:
                x = a[0]
                while x[0] == "cast":
                    x = x[2]
                if x[0] == "app" and x[1].endswith("SecurityCapabilities::bits"):
                    return x[2][0]
            for enc_, dec_ in (("Tags::encode", "Tags::decode"), ("MaterialColors::encode", "MaterialColors::decode"), ("Attributes::to_writer", "Attributes::from_reader")):
                if f.endswith(dec_) and a and a[0][0] == "app" and a[0][1].endswith(enc_):
                    return var(OK, a[0][2][0])
            if f.endswith("BrickColor::from_number") and a:
                x = a[0]
                while x[0] in ("cast", "try"):
                    x = x[2] if x[0] == "cast" else x[1]
                if is_var(x, OK) or is_var(x, SOME):
                    x = x[2][0]
                while x[0] in ("cast", "try"):
                    x = x[2] if x[0] == "cast" else x[1]
                if x[0] in ("payload", "fld", "in"):
                    return var(SOME, x)
            if f.endswith("Matrix3::from_basic_rotation_id") and a:
                x = a[0]
                if x[0] == "payload" and x[2] == SOME and x[1][0] == "app" and x[1][1].endswith("Matrix3::to_basic_rotation_id"):
                    return var(OK, ("snap", x[1][2][0]))
            if f.endswith("SharedString::data") or f.endswith("SharedString::new"):
                pass
            # u32 -> u16 try_into of a u32 cast from a narrower value
            if re.search(r"TryInto<\w+>>::try_into$|convert::TryInto::try_into$", f) and a:
                return var(OK, a[0])
        if t[0] == "unwrap_or" and (is_var(t[1], SOME) or is_var(t[1], OK)):
            return t[1][2][0]
        if t[0] == "app" and t[1].endswith("Result::<T, E>::ok") and t[2] and is_var(t[2][0], OK):
            return var(SOME, t[2][0][2][0])
        if t[0] == "app" and t[1].endswith("Option::<T>::and_then") and len(t[2]) == 2 and (is_var(t[2][0], SOME) or is_var(t[2][0], OK)):
            f2 = t[2][1]
            if f2[0] == "fnref":
                return ("app", f2[1], (t[2][0][2][0],))
        return None
    P.append(("binary codecs", codec))

    def slices(t):
        # slice(concat(parts), lo, n) -> the part written at [lo, lo+n)
        if t[0] == "slice" and t[1][0] == "concat":
            lo, n = t[2], t[3]
            for plo, phi_, term in t[1][1]:
                if plo == C(lo) and phi_ is not None and phi_[0] == "c" and phi_[1] - lo == n:
                    return term
        return None
    P.append(("sub-slices", slices))
    return P


DOM_CANON = {("iter", ("in", "values")): "INST", ("iter", ("fld", ("in", "type_info"), "referents")): "INST", ("iter", ("in", "referents")): "INST"}


def canon_dom(d):
    d = norm_dom(d)
    if d in DOM_CANON:
        return DOM_CANON[d]
    if isinstance(d, tuple) and d and d[0] == "rev":
        return ("rev", canon_dom(d[1]))
    if isinstance(d, tuple) and d and d[0] == "count" and isinstance(d[1], tuple) and d[1][0] == "len":
        return canon_dom(d[1][1])
    return d


def dom_equal(a, b):
    return canon_dom(a) == canon_dom(b)


def allowed_norms():
    def snap(t, base, assume):
        return t == ("snap", base)

    def ref_maps(t, base, assume):
        """written: id_to_referent.get(R) ? id : -1       read back: instances_by_ref.get(w) ? that instance's referent : Ref::none()"""
        def is_get(x, mapname):
            return x[0] == "app" and x[1].endswith("::get") and len(x[2]) == 2 and x[2][0] == ("fld", ("in", "self"), mapname)
        if t[0] != "phi" or len(t[1]) != 2:
            return False
        (c1, v1), (c2, v2) = t[1]
        if not (c1[0] == "is" and c1[2] == SOME and is_get(c1[1], "instances_by_ref")):
            return False
        w = c1[1][2][1]
        if v1 != ("fld", ("fld", ("payload", c1[1], SOME, 0), "builder"), "referent"):
            return False
        if not (v2[0] == "st" and v2[1] == "rbx_types::referent::Ref" and dict(v2[2]).get("0") == var(NONE)):
            return False
        if w[0] != "phi" or len(w[1]) != 2:
            return False
        (d1, w1), (d2, w2) = w[1]
        if not (d1[0] == "is" and d1[2] == SOME and is_get(d1[1], "id_to_referent") and d1[1][2][1] == base):
            return False
        return w1 == ("payload", d1[1], SOME, 0) and w2 == C(-1)

    def sstr(t, base, assume):
        s = term_str(t, 12)
        return "shared_string_ids" in s and "shared_strings" in s and term_str(base, 8) in s

    def binary_string(t, base, assume):
        if t[0] == "st" and t[1].endswith("binary_string::BinaryString"):
            b = dict(t[2]).get("buffer")
            return b == base or b == fld(base, "buffer")
        return False

    def content_id(t, base, assume):
        if t[0] == "st" and t[1].endswith("content::ContentId"):
            b = dict(t[2]).get("url")
            return b == base or b == fld(base, "url")
        return False

    def face_id(t, base, assume):
        from .C14_arm import face_shape
        return t[0] == "phi" and face_shape(t, base)

    def opaque_blob(t, base, assume):
        # Tags / Attributes / MaterialColors: decode(encode(x)) — the pair is checked by C14 / C17
        s = term_str(t, 10)
        for enc_, dec_ in (("Tags::encode", "Tags::decode"), ("Attributes::to_writer", "Attributes::from_reader"), ("MaterialColors::encode", "MaterialColors::decode")):
            if enc_ in s and dec_ in s and term_str(base, 8) in s:
                return True
        return False
    return [("rotation snapping", snap), ("Ref via referent maps", ref_maps), ("SharedString via SSTR index", sstr), ("BinaryString buffer", binary_string),
            ("ContentId url", content_id), ("cached_face_id Some(\"\")->None", face_id), ("blob codec pair", opaque_blob)]


# (wire type, decoder canonical type) -> writer Variant whose value must come back unchanged
def expected_pairs(t2v, v2t):
    out = {}
    for t, v in t2v.items():
        out.setdefault((t, v), set()).add(v)
    for v, t in v2t.items():
        out.setdefault((t, v), set()).add(v)
    return out


UNSUPPORTED = {
    ("Content", "Content"): "the URI / object lists are paired with the per-instance source types through two work queues filled in one loop and drained in another; that queue discipline is outside the interpreter's fragment (grammar and values of this arm are not decided)",
}

NORMALISING = {
    ("String", "BinaryString", "String"): "documented: untyped string-like blobs of unknown properties return as BinaryString",
    ("Color3uint8", "Color3", "Color3"): "documented: Color3 stored in a byte-colour property is quantised",
    ("Color3uint8", "Color3", "Color3uint8"): "the reader yields Color3uint8 for the byte-colour wire type (canonical type Color3)",
}


def run(c, prog):
    _run(c, prog)
    from . import C01_queue, C01_srctype
    C01_queue.run(c, prog)
    C01_srctype.run(c, prog)


def _run(c, prog):
    R = "C01.arm"
    c.rule(R, "for each of the 31 wire types: the encoder arm's wire grammar (primitives, loop domains, branch structure, length prefixes) is what each decoder arm consumes, and the value the decoder hands to add_property is the identity on the value encoded — every leaf field exactly once in its own position — modulo the documented normalisations")
    efn, em, earms = common.binary_encoder_arms(prog)
    dfn, darms = common.binary_decoder_arms(prog)
    tod = prog.fn(f"{common.TYPE_ENUM}::to_default_rbx_type")
    frm = prog.fn(f"{common.TYPE_ENUM}::from_rbx_type")
    from sa import tables
    tm, _, _ = tables.simple_map(tod)
    fm, _, _ = tables.simple_map(frm)
    t2v = {vname(k[1]): vname(v[1]) for k, v in tm.items() if k[0] == "v"}
    v2t = {vname(k[1]): vname(v[1]) for k, v in fm.items() if k[0] == "v"}
    prims = binary_prims()
    N = shape.Normaliser(prog, pairs(prog))
    base_v = fld(("elem", ("in", "values")), "1")
    # the local the decoder's inner `match` dispatches on, per wire type
    scrut_lids, scrut_env = {}, {}
    outer = tables.top_match(dfn, "binary_type")
    for oarm in outer["arms"]:
        inner = core.strip(oarm["body"])
        if inner.get("k") == "Match":
            sc = core.strip(inner["e"])
            if sc.get("k") == "Path" and sc.get("res") == "local":
                for alt in tables.pat_alts(oarm["pat"]):
                    if alt[0] == "v":
                        scrut_lids.setdefault(vname(alt[1]), set()).add(sc["lid"])
    n_arms = 0
    for T in sorted(earms):
        if T == "_":
            continue
        try:
            Iw = BinInterp(prog, prims=prims, depth=8, opaque=wire.OPAQUE)
            try:
                Iw.eval(earms[T]["body"], {})
            except sym.Exit:
                pass
        except sym.Unsupported as e:
            c.violation(R, f"cannot-establish|enc|{T}", f"encoder arm Type::{T}: construct outside the interpreter's fragment: {e}", core.loc(earms[T]["body"]), instance=f"enc:{T}")
            continue
        enc = Iw.events
        for V, darm in sorted(darms.get(T, {}).items()):
            if V == "_":
                continue
            n_arms += 1
            inst = f"arm:{T}/{V}"
            if (T, V) in UNSUPPORTED:
                c.analysed.setdefault("C01.arm_not_analysed", {})[f"{T}/{V}"] = UNSUPPORTED[(T, V)]
                continue
            try:
                Ir = BinInterp(prog, prims=prims, depth=8, opaque=wire.OPAQUE)
                try:
                    # inside the arm for declared type V the inner match's scrutinee *is* VariantType::V
                    # (an arm shared by several declared types may branch on it again)
                    Ir.eval(darm["body"], {lid: var(common.VARIANT_TYPE + "::" + V) for lid in scrut_lids.get(T, ())})
                except sym.Exit:
                    pass
            except sym.Unsupported as e:
                c.violation(R, f"cannot-establish|dec|{T}|{V}", f"decoder arm (Type::{T}, VariantType::{V}): construct outside the interpreter's fragment: {e}", core.loc(darm["body"]), instance=inst)
                continue
            dec = Ir.events
            # which writer variants does this decoder arm have to give back unchanged?
            writer_variants = variants_accepted(earms[T])
            for X in sorted(writer_variants):
                key3 = (T, V, X)
                if X != V and key3 not in NORMALISING and not (T == "String" and V == X):
                    continue
                assume = frozenset({("is", base_v, VARIANT + "::" + X)})
                M = shape.Matcher(N, lambda a, b: a == b, dom_equal)
                M.collect = False
                M.writer_assume = assume
                M.writer_returns_are_errors = True
                sub = f"{inst}<-{X}"
                try:
                    outs = M.match(enc, dec, {})
                except shape.Mismatch as e:
                    c.violation(R, f"grammar|{T}|{V}|{X}", f"wire type {T}: what the encoder writes for a Variant::{X} is not what decoder arm (Type::{T}, VariantType::{V}) reads: {e}", e.loc or core.loc(darm["body"]), instance=sub)
                    continue
                if key3 in NORMALISING and not (T == "Color3uint8" and X == "Color3uint8"):
                    c.ok(R, sub + ":grammar-only")
                    continue
                sinks = [(s, sub_, cc) for sub_, ss, cc in outs for s in ss]
                if not sinks:
                    c.violation(R, f"no-sink|{T}|{V}|{X}", f"decoder arm (Type::{T}, VariantType::{V}) never hands a value to add_property", core.loc(darm["body"]), instance=sub)
                    continue
                errs_all = []
                used = []
                from .C14_arm import strip_try
                for s, subst, cc in sinks:
                    conds = tuple(s[2]) + tuple(cc)
                    a2 = shape.assumptions(conds) | assume
                    t0 = N.norm(s[1], subst, a2)
                    # case split on writer-side Option tests that survive in the term (values pushed on both branches of a collection loop)
                    atoms = sorted({repr(x): x for x in option_atoms(t0, base_v)}.values(), key=repr)[:3]
                    cases = [frozenset()]
                    for at in atoms:
                        cases = [cs | {at} for cs in cases] + [cs | {("not", at)} for cs in cases]
                    for cs in cases:
                        a3 = a2 | cs
                        if cs:
                            # re-normalise the recorded branch decisions under the case assumption so that they keep matching
                            a3 = frozenset(a3) | frozenset(N.norm(x, subst, cs) for x in a2 if isinstance(x, tuple))
                        t = N.norm(s[1], subst, a3)
                        t = N.rewrite(strip_try(t))
                        t = N.norm(t, subst, a3)
                        bad = sym.contains_unk(t)
                        if bad:
                            errs_all.append(("(value)", f"cannot establish: {bad}"))
                            continue
                        ident = shape.Identity(prog, allowed_norms(), a3)
                        errs_all += ident.check(t, base_v, "")
                        used += ident.used
                if not errs_all:
                    c.ok(R, sub)
                    if T in ("Ray", "Vector3", "CFrame"):
                        c.sample({"rule": R, "arm": f"{T}/{V}", "encoder": shape.render(enc)[:8], "decoder": shape.render(dec)[:8], "normalisations": sorted(set(used))})
                else:
                    fp, got = errs_all[0]
                    c.violation(R, f"value|{T}|{V}|{X}|{fp}", f"wire type {T}, decoder arm {V}: field `{fp or 'value'}` of a Variant::{X} comes back as `{got}` ({len(errs_all)} leaf field(s) differ) — the value read is not the value written", s[3] if sinks else "", instance=sub)
    c.floor(R, n_arms, 35, "decoder arms analysed")


def option_atoms(t, base):
    """conditions `X is Some` inside t where X is a projection of the encoded value"""
    out = []
    if isinstance(t, tuple):
        if t and t[0] == "is" and t[2] == SOME and mentions(t[1], base) and t[1][0] in ("payload", "fld"):
            out.append(t)
        for x in t:
            if isinstance(x, tuple):
                out += option_atoms(x, base)
    return out


def mentions(t, base):
    if t == base:
        return True
    if isinstance(t, tuple):
        return any(mentions(x, base) for x in t if isinstance(x, tuple))
    return False


def variants_accepted(arm):
    from sa import tables
    out = set()
    for n in core.walk(arm["body"]):
        pats = []
        if n.get("k") == "Match" and n.get("src") == "Normal":
            pats = [a["pat"] for a in n["arms"]]
        elif n.get("k") == "If" and core.strip(n["c"]).get("k") == "LetExpr":
            pats = [core.strip(n["c"])["pat"]]
        for p in pats:
            for alt in tables.pat_alts(p):
                if alt[0] == "ctor" and (alt[1] or "").startswith(VARIANT + "::"):
                    out.add(vname(alt[1]))
    return out
