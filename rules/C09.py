"""C09 — a WeakDom stays a well-formed forest.  C09.who (who may write the link fields), C09.link (link/unlink
pairing on the MIR CFG), C09.acyc (same-DOM re-parenting needs an ancestor guard), C09.iter (BFS iterator)."""
from sa import core, discipline as D
from . import domutil as U
from .domutil import DOM

# field -> {(function, mutation class): reason}
WHO = {
    U.F_CHILDREN: {
        (DOM + "WeakDom::insert::insert", "structural:push"): "append the new child to its parent",
        (DOM + "WeakDom::destroy", "structural:retain"): "unlink from old parent",
        (DOM + "WeakDom::transfer", "structural:retain"): "unlink from old parent",
        (DOM + "WeakDom::transfer", "structural:push"): "link under the destination parent",
        (DOM + "WeakDom::transfer_within", "structural:retain"): "unlink from old parent",
        (DOM + "WeakDom::transfer_within", "structural:push"): "link under the new parent",
    },
    U.F_PARENT: {
        (DOM + "WeakDom::transfer", "assign"): "moved root gets the destination parent",
        (DOM + "WeakDom::transfer_within", "assign"): "moved root gets the new parent",
    },
    U.F_REFERENT: {},
    U.F_INSTANCES: {
        (DOM + "WeakDom::inner_insert", "structural:insert"): "sole entry point into the instance map",
        (DOM + "WeakDom::inner_remove", "structural:remove"): "sole exit from the instance map",
        (DOM + "WeakDom::reserve", "capacity:reserve"): "capacity only",
    },
    U.F_UIDS: {
        (DOM + "WeakDom::inner_insert", "structural:insert"): "records the id of the entering instance",
        (DOM + "WeakDom::inner_remove", "structural:remove"): "frees the id of the leaving instance",
    },
    U.F_ROOT: {},
}
AGG_INSTANCE = {DOM + "WeakDom::insert::insert": "builds the Instance from its builder"}
AGG_WEAKDOM = {DOM + "WeakDom::new": "construct", DOM + "WeakDom::from_raw": "construct (checks root and ids)",
               "<rbx_dom_weak::dom::WeakDom as core::default::Default>::default": "construct"}


def rule_who(c, prog):
    R = "C09.who"
    c.rule(R, "link fields Instance.{referent,parent,children} and WeakDom.{instances,root_ref,unique_ids} are mutated only by the confirmed (function, operation) pairs; element access via get_mut is listed separately")
    muts = U.all_mutations(prog, list(WHO))
    n = 0
    for field, sites in sorted(muts.items()):
        for fn, cls, m in sites:
            if cls.startswith("element:"):
                # handing out &mut Instance (its link fields stay pub(crate))
                c.ok(R, f"{field}|{fn}|{cls}")
                continue
            n += 1
            if (fn, cls) in WHO[field]:
                c.ok(R, f"{field}|{fn}|{cls}")
            else:
                c.violation(R, f"{field}|{fn}|{cls}", f"{fn} mutates {field} ({cls}) — not one of the confirmed writers {sorted(set(f for f, _ in WHO[field])) or '(none: construction only)'}; link bookkeeping can be bypassed", m["sp"], instance=f"{field}|{fn}|{cls}")
    # every confirmed writer must still exist (anchors)
    have = {(field, fn, cls) for field, sites in muts.items() for fn, cls, _ in sites}
    for field, tab in WHO.items():
        for (fn, cls) in tab:
            if (field, fn, cls) not in have:
                c.violation(R, f"anchor|{field}|{fn}|{cls}", f"confirmed writer disappeared: {fn} no longer performs {cls} on {field} (table out of date or bookkeeping dropped)", "")
    c.floor(R, n, 13, "link-field mutation sites")
    # aggregates
    for path, fn in prog.fns.items():
        if fn.crate not in core.LIB_CRATES:
            continue
        for adt, table in ((U.INST, AGG_INSTANCE), (U.WD, AGG_WEAKDOM)):
            for st in D.aggregates(fn, adt):
                if path in table:
                    c.ok(R, f"agg:{adt}|{path}")
                else:
                    c.violation(R, f"agg|{adt}|{path}", f"{path} constructs a {adt} value directly (struct literal) outside the confirmed constructors {sorted(table)}", st.get("sp", ""), instance=f"agg:{adt}|{path}")
    # visibility: the link fields must not be pub
    for adt, fields in ((U.INST, ("referent", "parent", "children")), (U.WD, ("instances", "root_ref", "unique_ids"))):
        a = prog.adt(adt)
        for f in a["variants"][0]["fields"]:
            if f["name"] in fields:
                if f["vis"].startswith("Public"):
                    c.violation(R, f"vis|{adt}.{f['name']}", f"{adt}.{f['name']} is public: any client can break the forest invariant", a["sp"], instance=f"vis:{adt}.{f['name']}")
                else:
                    c.ok(R, f"vis:{adt}.{f['name']}")


def rule_link(c, prog):
    R = "C09.link"
    c.rule(R, "every path that links an instance under a non-null parent pushes it onto that parent's children; every path that removes/re-parents an instance with a non-null old parent retains it out of the old parent's children; destroy/transfer work lists are extended with the children of each removed instance; the root is refused first")
    # (a) link
    for name in ("WeakDom::insert::insert", "WeakDom::transfer", "WeakDom::transfer_within"):
        fn = prog.fn(DOM + name)
        cfg = D.CFG(fn)
        muts = D.field_mutations(fn)
        push_blocks = {i for i, cal, t in U.calls_in(fn, r"alloc::vec::Vec::<T, A>::push$")
                       if any(m["field"] == U.F_CHILDREN and m["how"].endswith("::push") and m["sp"] == t.get("sp") for m in muts)}
        false_edges = {b for b, _ in U.is_some_false_targets(fn, cfg)}
        # link sites: aggregate Instance (insert) or assignment to .parent
        starts = []
        for i, bb in enumerate(cfg.blocks):
            for st in bb["stmts"]:
                if st["k"] == "assign" and (st.get("rk", "").startswith("agg:" + U.INST + "::") or (D.last_field(st["lhs"]) == U.F_PARENT)):
                    starts.append((i, st))
        if not starts:
            c.violation(R, f"link|{name}|anchor", f"{name}: no parent-link site (struct literal / `.parent =`) found", fn.sp)
            continue
        for i, st in starts:
            inst = f"link:{name}"
            if not push_blocks:
                c.violation(R, f"link|{name}|no-push", f"{name} sets an instance's parent but never pushes it onto the parent's children: the child is unreachable from its parent", st.get("sp", ""), instance=inst)
            elif cfg.must_pass(i, push_blocks | false_edges, cfg.returns):
                c.ok(R, inst)
            else:
                c.violation(R, f"link|{name}|path", f"{name}: a path from the parent-link site to the normal return skips `children.push` (and is not the `parent.is_some() == false` path)", st.get("sp", ""), instance=inst)
    # (b) unlink
    for name in ("WeakDom::destroy", "WeakDom::transfer", "WeakDom::transfer_within"):
        fn = prog.fn(DOM + name)
        cfg = D.CFG(fn)
        muts = D.field_mutations(fn)
        retain_blocks = {i for i, cal, t in U.calls_in(fn, r"alloc::vec::Vec::<T, A>::retain(_mut)?$")
                         if any(m["field"] == U.F_CHILDREN and "retain" in m["how"] and m["sp"] == t.get("sp") for m in muts)}
        false_edges = {b for b, _ in U.is_some_false_targets(fn, cfg)}
        inst = f"unlink:{name}"
        if not retain_blocks:
            c.violation(R, f"unlink|{name}|no-retain", f"{name} never removes the instance from its old parent's children: the old parent keeps a dangling child", fn.sp, instance=inst)
        elif cfg.must_pass(0, retain_blocks | false_edges, cfg.returns):
            c.ok(R, inst)
        else:
            c.violation(R, f"unlink|{name}|path", f"{name}: a path to the normal return skips `children.retain` on the old parent although the old parent is non-null", fn.sp, instance=inst)
        # the retained closure must compare against the moved referent: closure captures `referent`
        clos = [n for n in core.walk_fn(fn) if n.get("k") == "Closure" and any(cap.get("name") == "referent" for cap in n.get("captures", []))]
        ok = False
        for n in clos:
            b = core.strip(n["body"])
            if b.get("k") == "Binary" and b["op"] == "!=":
                ok = True
        if ok:
            c.ok(R, f"unlink-pred:{name}")
        else:
            c.violation(R, f"unlink|{name}|pred", f"{name}: the retain predicate is not `child != referent`", fn.sp, instance=f"unlink-pred:{name}")
    # (b') unlink before link: with the same parent as source and destination, push-then-retain removes both entries
    for name in ("WeakDom::transfer", "WeakDom::transfer_within"):
        fn = prog.fn(DOM + name)
        cfg = D.CFG(fn)
        dom = cfg.dominators()
        muts = D.field_mutations(fn)
        retain_blocks = {i for i, cal, t in U.calls_in(fn, r"alloc::vec::Vec::<T, A>::retain(_mut)?$")}
        push_blocks = {i for i, cal, t in U.calls_in(fn, r"alloc::vec::Vec::<T, A>::push$") if any(m["field"] == U.F_CHILDREN and m["how"].endswith("::push") and m["sp"] == t.get("sp") for m in muts)}
        inst = f"unlink-before-link:{name}"
        # no retain is reachable after a push
        after_push = set()
        for pb in push_blocks:
            after_push |= cfg.reachable_from(pb) - {pb}
        if retain_blocks and push_blocks and not (retain_blocks & after_push):
            c.ok(R, inst)
        else:
            c.violation(R, f"order|{name}", f"{name}: the instance is pushed onto the new parent's children before it is retained out of the old parent's; when both are the same instance (re-appending under the current parent) the retain removes the fresh entry too and the child disappears from its parent", fn.sp, instance=inst)
    # retain guard must be exactly `old parent is some`: an extra conjunct (e.g. `&& parent != dest`) skips the unlink while the push still happens
    for name in ("WeakDom::destroy", "WeakDom::transfer", "WeakDom::transfer_within"):
        fn = prog.fn(DOM + name)
        for n in core.walk_fn(fn):
            if n.get("k") == "If" and any(x.get("k") == "MethodCall" and x["m"] in ("retain", "retain_mut") for x in core.walk(n["t"])):
                cnd = core.strip(n["c"])
                inst = f"unlink-guard:{name}"
                if cnd.get("k") == "MethodCall" and cnd["m"] == "is_some" and not cnd["args"]:
                    c.ok(R, inst)
                else:
                    c.violation(R, f"unlink-guard|{name}", f"{name}: the unlink from the old parent is guarded by `{core.fingerprint(cnd, 5)}`, not just `old_parent.is_some()`: when the extra condition fails the instance stays listed by its old parent (listed twice after the push)", core.loc(n), instance=inst)
    # (c) work lists
    for name in ("WeakDom::destroy", "WeakDom::transfer"):
        fn = prog.fn(DOM + name)
        cfg = D.CFG(fn)
        rem = {i for i, cal, t in U.calls_in(fn, r"WeakDom::inner_remove$")}
        ext = U.calls_in(fn, r"VecDeque::<T, A>::extend$|<alloc::collections::vec_deque::VecDeque<T, A> as core::iter::traits::collect::Extend<.*>>::extend$")
        pops = {i for i, cal, t in U.calls_in(fn, r"VecDeque::<T, A>::pop_(front|back)$")}
        inst = f"worklist:{name}"
        in_loop = [i for i, cal, t in ext if any(p in cfg.reachable_from(i) and i in cfg.reachable_from(p) for p in pops)]
        if rem and pops and in_loop:
            c.ok(R, inst)
        else:
            c.violation(R, f"worklist|{name}", f"{name}: the removal loop does not extend its work list with the children of each removed instance (descendants would stay in the DOM with a dangling parent)", fn.sp, instance=inst)
        # the extension source must be the removed instance's children
        srcs = []
        for n in core.walk_fn(fn):
            if n.get("k") == "MethodCall" and n["m"] == "extend":
                root, path = core.place_root(n["args"][0]) if n["args"] else (None, [])
                srcs.append((root, tuple(p for p in path if not p.startswith("."))))
        if srcs and all(r == "instance" and p[:1] == ("children",) for r, p in srcs):
            c.ok(R, f"worklist-src:{name}")
        else:
            c.violation(R, f"worklist-src|{name}", f"{name}: work list is extended from {srcs}, expected the removed instance's `children`", fn.sp, instance=f"worklist-src:{name}")
    # (e) root guard dominates every mutation
    for name in ("WeakDom::destroy", "WeakDom::transfer", "WeakDom::transfer_within"):
        fn = prog.fn(DOM + name)
        cfg = D.CFG(fn)
        dom = cfg.dominators()
        guards = []
        for i, cal, t in U.calls_in(fn, r"<rbx_types::referent::Ref as core::cmp::PartialEq>::eq$|core::cmp::PartialEq::eq$|<rbx_types::referent::Ref as core::cmp::PartialEq>::ne$"):
            roots = [U.local_root(fn, a) for a in t["args"]]
            if any(r and U.F_ROOT in r[1] for r in roots):
                guards.append(i)
        mut_blocks = set()
        for i, bb in enumerate(cfg.blocks):
            t = bb["term"]
            if t["k"] == "call" and (t.get("fn") or "").endswith(("inner_remove", "inner_insert", "get_mut", "::retain", "::push")):
                mut_blocks.add(i)
        inst = f"rootguard:{name}"
        if guards and all(any(g in dom.get(b, ()) for g in guards) for b in mut_blocks if b in dom):
            c.ok(R, inst)
        else:
            c.violation(R, f"rootguard|{name}", f"{name}: the `referent == self.root_ref` refusal does not dominate every mutation (the root could be removed or re-parented)", fn.sp, instance=inst)


def rule_acyc(c, prog):
    R = "C09.acyc"
    c.rule(R, "a function that re-parents an instance within one DOM (assigns Instance.parent without inner_remove/inner_insert) must first establish that the new parent is not inside the moved subtree (an ancestor walk: a loop reading Instance.parent, dominating the assignment)")
    for path, fn in sorted(prog.fns.items()):
        if fn.crate != "rbx_dom_weak" or not fn.mir:
            continue
        muts = [m for m in D.field_mutations(fn) if m["field"] == U.F_PARENT and m["how"] == "assign"]
        if not muts:
            continue
        if U.calls_in(fn, r"WeakDom::inner_(remove|insert)$"):
            c.ok(R, f"cross-dom:{path}")
            continue
        # look for a loop that reads .parent
        cfg = D.CFG(fn)
        has_walk = False
        for i, bb in enumerate(cfg.blocks):
            reads_parent = any(st["k"] == "assign" and any(U.F_PARENT in D.place_fields(op) for op in st.get("ops", []) if op.get("k") == "place") and D.last_field(st["lhs"]) != U.F_PARENT for st in bb["stmts"])
            calls_parent = bb["term"]["k"] == "call" and (bb["term"].get("fn") or "").endswith("Instance::parent")
            if (reads_parent or calls_parent) and i in cfg.reachable_from(i) - ({i} if i not in cfg.succ[i] else set()) | ({i} if any(i in cfg.reachable_from(s) for s in cfg.succ[i]) else set()):
                if any(i in cfg.reachable_from(s) for s in cfg.succ[i]):
                    has_walk = True
        inst = f"acyc:{path}"
        if has_walk:
            c.ok(R, inst)
        else:
            c.violation(R, f"{path}|no-ancestor-guard", f"{path} re-parents within one DOM without checking that the new parent is not a descendant of the moved instance: `transfer_within(a, child_of_a)` makes `a` its own ancestor and detaches the subtree from the root", muts[0]["sp"], instance=inst)


def rule_iter(c, prog):
    R = "C09.iter"
    c.rule(R, "WeakDomDescendants::next pops the front of its queue and extends it with the children of the popped instance only (parents before children)")
    fn = prog.fn("<rbx_dom_weak::dom::WeakDomDescendants<'a> as core::iter::traits::iterator::Iterator>::next")
    pops = U.calls_in(fn, r"VecDeque::<T, A>::pop_(front|back)$")
    if [cal.rsplit("::", 1)[-1] for _, cal, _ in pops] == ["pop_front"]:
        c.ok(R, "pop_front")
    else:
        c.violation(R, "iter|pop", f"descendants iterator pops {[cal for _, cal, _ in pops]}, expected a single pop_front (BFS, parents first)", fn.sp, instance="pop_front")
    bad = U.calls_in(fn, r"VecDeque::<T, A>::(push_front|insert|rotate_\w+|swap|make_contiguous|sort\w*)$")
    if bad:
        c.violation(R, "iter|order", f"descendants iterator reorders its queue via {[cal for _, cal, _ in bad]}", fn.sp)
    ext = [n for n in core.walk_fn(fn) if n.get("k") == "MethodCall" and n["m"] in ("extend", "push_back")]
    ok = False
    for n in ext:
        if n["args"]:
            a = core.strip(n["args"][0])
            if a.get("k") == "MethodCall" and a["m"] == "children" and core.place_root(a["recv"])[0] == "instance":
                ok = True
    if ok and len(ext) == 1:
        c.ok(R, "extend-children")
    else:
        c.violation(R, "iter|extend", "descendants iterator does not extend its queue with exactly `instance.children()` of the popped instance", fn.sp, instance="extend-children")


def run(c, prog):
    rule_who(c, prog)
    rule_link(c, prog)
    rule_acyc(c, prog)
    rule_iter(c, prog)
    c.not_decided += ["the inductive invariant over every history (each operation's code is checked for the preserving shape; histories are not simulated)", "aliasing arguments such as transfer_within(x, x)"]
