"""C09 — a WeakDom stays a well-formed forest.  C09.who (who may write the link fields), C09.link (link/unlink
pairing on the MIR CFG), C09.acyc (same-DOM re-parenting needs an ancestor guard), C09.iter (BFS iterator).

The pairing / ordering / domination rules are stated per *public API function* of rbx_dom_weak::dom, analysed with
the module's private helpers spliced into its CFG (sa.inline): how the body is split into helpers is not part of
the rule.  Rule instances are discovered by their trigger operation (a struct-literal Instance, an assignment to
`.parent`, a removal from `instances`), not by function name; floors pin the number of instances confirmed by hand."""
import re

from sa import core, discipline as D
from . import domutil as U
from .domutil import DOM

# field -> operation classes that may be applied to it (by any function of the owning module)
ALLOWED_OPS = {
    U.F_CHILDREN: {"structural:push": "append a child", "structural:retain": "unlink a child"},
    U.F_PARENT: {"assign": "re-parent"},
    U.F_REFERENT: {},
    U.F_INSTANCES: {"structural:insert": "enter the instance map", "structural:remove": "leave the instance map", "capacity:reserve": "capacity only"},
    U.F_UIDS: {"structural:insert": "record an id", "structural:remove": "free an id"},
    U.F_ROOT: {},
}
OWNER_MODULE = DOM   # rbx_dom_weak::dom — the module that owns the forest invariant
PUSH_RX = r"alloc::vec::Vec::<T, A>::push$"
RETAIN_RX = r"alloc::vec::Vec::<T, A>::retain(_mut)?$"


def in_owner(path):
    return path.startswith(OWNER_MODULE) or path.startswith("<" + OWNER_MODULE)


def rule_who(c, prog):
    R = "C09.who"
    c.rule(R, "link fields Instance.{referent,parent,children} and WeakDom.{instances,root_ref,unique_ids} are mutated only inside rbx_dom_weak::dom, only through the confirmed operation classes (children: push/retain; parent: assign; instances: insert/remove/reserve; unique_ids: insert/remove; referent, root_ref: never after construction); no &mut to a link field escapes; Instance / WeakDom values are built only there; the fields are not pub")
    muts = U.all_mutations(prog, list(ALLOWED_OPS))
    n = 0
    seen_ops = set()
    for field, sites in sorted(muts.items()):
        for fn, cls, m in sites:
            if cls.startswith("element:"):
                # handing out &mut Instance (its link fields stay pub(crate))
                c.ok(R, f"{field}|{fn}|{cls}")
                continue
            n += 1
            inst = f"{field}|{fn}|{cls}"
            if not in_owner(fn):
                c.violation(R, inst, f"{fn} mutates {field} ({cls}) outside {OWNER_MODULE[:-2]}: link bookkeeping can be bypassed", m["sp"], instance=inst)
            elif cls not in ALLOWED_OPS[field]:
                c.violation(R, inst, f"{fn} applies `{cls}` to {field}; the confirmed operations on this field are {sorted(ALLOWED_OPS[field]) or '(none: construction only)'} — any other operation can reorder, drop or duplicate links without the paired bookkeeping", m["sp"], instance=inst)
            else:
                seen_ops.add((field, cls))
                c.ok(R, inst)
    for field, ops in ALLOWED_OPS.items():
        for cls in ops:
            if (field, cls) not in seen_ops:
                c.violation(R, f"anchor|{field}|{cls}", f"no `{cls}` on {field} anywhere in the workspace: the bookkeeping operation disappeared (or the analysis lost sight of it)", "")
    c.floor(R, n, 8, "link-field mutation sites")
    # aggregates
    for path, fn in prog.fns.items():
        if fn.crate not in core.LIB_CRATES:
            continue
        for adt in (U.INST, U.WD):
            for st in D.aggregates(fn, adt):
                if in_owner(path):
                    c.ok(R, f"agg:{adt}|{path}")
                else:
                    c.violation(R, f"agg|{adt}|{path}", f"{path} constructs a {adt} value directly (struct literal) outside {OWNER_MODULE[:-2]}", st.get("sp", ""), instance=f"agg:{adt}|{path}")
    # visibility: the link fields must not be pub
    for adt, fields in ((U.INST, ("referent", "parent", "children")), (U.WD, ("instances", "root_ref", "unique_ids"))):
        a = prog.adt(adt)
        for f in a["variants"][0]["fields"]:
            if f["name"] in fields:
                if f["vis"].startswith("Public"):
                    c.violation(R, f"vis|{adt}.{f['name']}", f"{adt}.{f['name']} is public: any client can break the forest invariant", a["sp"], instance=f"vis:{adt}.{f['name']}")
                else:
                    c.ok(R, f"vis:{adt}.{f['name']}")


def children_blocks(fn, rx):
    muts = D.field_mutations(fn)
    op = "retain" if "retain" in rx else "push"
    return {i for i, cal, t in U.calls_in(fn, rx) if any(m["field"] == U.F_CHILDREN and op in m["how"] and m["sp"] == t.get("sp") for m in muts)}


def link_triggers(fn, cfg):
    """(block, stmt) of every parent-link site: a struct-literal Instance or an assignment to `.parent`"""
    out = []
    for i, bb in enumerate(cfg.blocks):
        for st in bb["stmts"]:
            if st["k"] == "assign" and (st.get("rk", "").startswith("agg:" + U.INST + "::") or D.last_field(st["lhs"]) == U.F_PARENT):
                out.append((i, st))
    return out


def has_unlink_trigger(fn):
    muts = D.field_mutations(fn)
    return any((m["field"] == U.F_INSTANCES and U.classify(m["how"]) == "structural:remove") or (m["field"] == U.F_PARENT and m["how"] == "assign") for m in muts)


def param_of(fn, op):
    """index (1-based MIR local) of the API parameter an operand is copied/borrowed from, or None"""
    r = U.local_root(fn, op, depth=12)
    if r is None:
        return None
    l, proj = r
    argc = fn.mir.get("argc") or 0
    return l if 1 <= l <= argc and not proj else None


def rule_link(c, prog):
    R = "C09.link"
    c.rule(R, "per public function of rbx_dom_weak::dom (private helpers inlined): every path from a parent-link site (struct-literal Instance / `.parent =`) to the normal return pushes onto the parent's children unless the parent is null; every function that removes an instance from the map or re-parents it retains it out of the old parent's children unless the old parent is null, before any push, guarded by nothing but `old_parent.is_some()`, with predicate `child != <moved referent>`; removal loops extend their work list with the removed instance's children; the root is refused before any mutation")
    api = U.api_fns(prog)
    n_link = n_unlink = 0
    for path, fn in sorted(api.items()):
        name = U.short_api(path)
        cfg = D.CFG(fn)
        trig = link_triggers(fn, cfg)
        push_blocks = children_blocks(fn, PUSH_RX)
        retain_blocks = children_blocks(fn, RETAIN_RX)
        false_edges = {b for b, _ in U.is_some_false_targets(fn, cfg)}
        # (a) link
        for i, st in trig:
            n_link += 1
            inst = f"link:{name}"
            if not push_blocks:
                c.violation(R, f"link|{name}|no-push", f"{name} sets an instance's parent but never pushes it onto the parent's children: the child is unreachable from its parent", st.get("sp", ""), instance=inst)
            elif cfg.must_pass(i, push_blocks | false_edges, cfg.returns):
                c.ok(R, inst)
            else:
                c.violation(R, f"link|{name}|path", f"{name}: a path from the parent-link site to the normal return skips `children.push` (and is not the `parent.is_some() == false` path)", st.get("sp", ""), instance=inst)
        if not has_unlink_trigger(fn):
            continue
        # (b) unlink
        n_unlink += 1
        inst = f"unlink:{name}"
        if not retain_blocks:
            c.violation(R, f"unlink|{name}|no-retain", f"{name} never removes the instance from its old parent's children: the old parent keeps a dangling child", fn.sp, instance=inst)
        elif cfg.must_pass(0, retain_blocks | false_edges, cfg.returns):
            c.ok(R, inst)
        else:
            c.violation(R, f"unlink|{name}|path", f"{name}: a path to the normal return skips `children.retain` on the old parent although the old parent is non-null", fn.sp, instance=inst)
        # the retain predicate: closure `|child| child != <captured>`, the captured value being the moved referent
        # (an API parameter of type Ref that is not the one stored into `.parent`)
        dest_params = set()
        for bb in cfg.blocks:
            for st in bb["stmts"]:
                if st["k"] == "assign" and D.last_field(st["lhs"]) == U.F_PARENT and st.get("ops"):
                    pidx = param_of(fn, st["ops"][0])
                    if pidx:
                        dest_params.add(pidx)
        pred_ok = bool(retain_blocks)
        why = ""
        for b in retain_blocks:
            t = cfg.blocks[b]["term"]
            clos_arg = t["args"][1] if len(t.get("args", [])) > 1 else None
            cpath, caps = closure_of(fn, clos_arg)
            cnode = closure_nodes(prog).get(cpath) if cpath else None
            if cnode is None:
                pred_ok, why = False, "retain predicate is not a closure literal"
                continue
            body = core.strip(cnode["body"])
            while body.get("k") == "Block" and not body["b"]["stmts"] and "expr" in body["b"]:
                body = core.strip(body["b"]["expr"])
            if not (body.get("k") == "Binary" and body["op"] == "!="):
                pred_ok, why = False, f"retain predicate is `{core.fingerprint(body, 4)}`, not `child != referent`"
                continue
            pidx = [param_of(fn, cp) for cp in caps]
            if len(pidx) != 1 or pidx[0] is None or "referent::Ref" not in fn.mir["locals"][pidx[0]]:
                pred_ok, why = False, "the value compared against is not the moved instance's referent parameter"
            elif pidx[0] in dest_params:
                pred_ok, why = False, "the retain compares against the destination parent, not the moved instance"
        if pred_ok:
            c.ok(R, f"unlink-pred:{name}")
        elif retain_blocks:
            c.violation(R, f"unlink|{name}|pred", f"{name}: {why}", fn.sp, instance=f"unlink-pred:{name}")
        # (b') unlink before link
        if push_blocks:
            inst = f"unlink-before-link:{name}"
            after_push = set()
            for pb in push_blocks:
                after_push |= cfg.reachable_from(pb) - {pb}
            if retain_blocks and not (retain_blocks & after_push):
                c.ok(R, inst)
            else:
                c.violation(R, f"order|{name}", f"{name}: the instance is pushed onto the new parent's children before it is retained out of the old parent's; when both are the same instance (re-appending under the current parent) the retain removes the fresh entry too and the child disappears from its parent", fn.sp, instance=inst)
        # (c) work lists: a removal from the map inside a loop must extend the loop's work list
        rem = U.mutation_blocks(fn, U.F_INSTANCES, r"::remove$")
        pops = {i for i, cal, t in U.calls_in(fn, r"VecDeque::<T, A>::pop_(front|back)$")}
        looping_rem = {r for r in rem if any(p in cfg.reachable_from(r) and r in cfg.reachable_from(p) for p in pops)}
        if looping_rem:
            ext = U.calls_in(fn, r"VecDeque::<T, A>::(extend|push_back)$|<alloc::collections::vec_deque::VecDeque<T, A> as core::iter::traits::collect::Extend<.*>>::extend$")
            in_loop = [i for i, cal, t in ext if any(p in cfg.reachable_from(i) and i in cfg.reachable_from(p) for p in pops)]
            inst = f"worklist:{name}"
            if in_loop:
                c.ok(R, inst)
            else:
                c.violation(R, f"worklist|{name}", f"{name}: the removal loop does not extend its work list with the children of each removed instance (descendants would stay in the DOM with a dangling parent)", fn.sp, instance=inst)
        # (e) root guard dominates every mutation
        dom = cfg.dominators()
        guards = []
        for i, cal, t in U.calls_in(fn, r"<rbx_types::referent::Ref as core::cmp::PartialEq>::(eq|ne)$|core::cmp::PartialEq::(eq|ne)$"):
            roots = [U.local_root(fn, a, depth=12) for a in t["args"]]
            if any(r and U.F_ROOT in r[1] for r in roots):
                guards.append(i)
        mut_blocks = {i for i, cal, t in U.calls_in(fn, r"(HashMap::<K, V, S(, A)?>|HashSet::<T, S(, A)?>)::(remove|insert|get_mut)$|" + RETAIN_RX + "|" + PUSH_RX)}
        inst = f"rootguard:{name}"
        if guards and all(any(g in dom.get(b, ()) for g in guards) for b in mut_blocks if b in dom):
            c.ok(R, inst)
        else:
            c.violation(R, f"rootguard|{name}", f"{name}: the `referent == self.root_ref` refusal does not dominate every mutation (the root could be removed or re-parented)", fn.sp, instance=inst)
    c.floor(R, n_link, 3, "parent-link sites in API functions (insert, transfer, transfer_within)")
    c.floor(R, n_unlink, 3, "API functions that remove or re-parent (destroy, transfer, transfer_within)")
    # HIR-level clauses, on whichever function of the module holds the construct
    n_guard = n_src = 0
    for path, fn in sorted(prog.fns.items()):
        if fn.crate != "rbx_dom_weak" or not in_owner(path) or fn.body is None or fn.dk == "Closure" or "::test" in path:
            continue
        name = U.short_api(path)
        for n in core.walk_fn(fn, into_closures=False):
            # the unlink guard must be exactly `old parent is some`: an extra conjunct (e.g. `&& parent != dest`)
            # skips the unlink while the push still happens
            if n.get("k") == "If" and any(x.get("k") == "MethodCall" and x["m"] in ("retain", "retain_mut") and "children" in core.place_root(x["recv"])[1] for x in core.walk(n["t"], into_closures=False)):
                cnd = core.strip(n["c"])
                inst = f"unlink-guard:{name}"
                n_guard += 1
                if cnd.get("k") == "MethodCall" and cnd["m"] == "is_some" and not cnd["args"]:
                    c.ok(R, inst)
                else:
                    c.violation(R, f"unlink-guard|{name}", f"{name}: the unlink from the old parent is guarded by `{core.fingerprint(cnd, 5)}`, not just `old_parent.is_some()`: when the extra condition fails the instance stays listed by its old parent (listed twice after the push)", core.loc(n), instance=inst)
        # work-list source: a VecDeque extended inside a `while let Some(..) = q.pop_front()` loop that also removes
        # instances must be extended from the removed instance's children
        has_remove = any(x.get("k") == "MethodCall" and (core.callee(x) or "").endswith(("WeakDom::inner_remove",)) or (x.get("k") == "MethodCall" and x["m"] == "remove" and "instances" in core.place_root(x["recv"])[1]) for x in core.walk_fn(fn, into_closures=False))
        if has_remove:
            srcs = []
            for n in core.walk_fn(fn, into_closures=False):
                if n.get("k") == "MethodCall" and n["m"] in ("extend", "extend_from_slice") and WORKLIST_TY.search(n["recv"].get("ty", "") + n["recv"].get("aty", "")):
                    root, pth = core.place_root(n["args"][0]) if n["args"] else (None, [])
                    srcs.append((root, tuple(p for p in pth if not p.startswith("."))))
                fl = core.as_for(n)
                if fl is not None and n.get("k") != "DropTemps":
                    # `for c in <src> { queue.push_back(c) }` is the same extension
                    pushes = [x for x in core.walk(fl[2], into_closures=False) if x.get("k") == "MethodCall" and x["m"] in ("push_back", "push") and WORKLIST_TY.search(x["recv"].get("ty", "") + x["recv"].get("aty", ""))]
                    if pushes and not any(core.as_for(y) is not None and y is not n and y.get("k") != "DropTemps" for y in core.walk(fl[2], into_closures=False)):
                        root, pth = core.place_root(fl[1])
                        fields = tuple(p for p in pth if not p.startswith("."))
                        if fields:
                            srcs.append((root, fields))
            # a work list that grows while it is walked must be walked by a loop that looks at it again each time round
            # (`while let Some(x) = q.pop_front()`, `while i < v.len()`): a `for i in 0..v.len()` fixes the bound on entry
            for n in core.walk_fn(fn, into_closures=False):
                fl = core.as_for(n)
                if fl is None or n.get("k") == "DropTemps":
                    continue
                it = core.strip(fl[1])
                if it.get("k") == "Struct" and it.get("def") == "core::ops::range::Range":
                    end = {f_["f"]: f_["e"] for f_ in it["fields"]}.get("end")
                    e0 = core.strip(end) if end else {}
                    lens = [y for y in core.walk(e0) if y.get("k") == "MethodCall" and y["m"] == "len" and WORKLIST_TY.search(y["recv"].get("ty", "") + y["recv"].get("aty", ""))]
                    for ln_ in lens:
                        wl = core.place_root_lid(ln_["recv"])[0]
                        grows = [x for x in core.walk(fl[2], into_closures=False) if x.get("k") == "MethodCall" and x["m"] in ("extend", "extend_from_slice", "push", "push_back", "append") and core.place_root_lid(x["recv"])[0] == wl]
                        if grows:
                            c.violation(R, f"worklist-bound|{name}", f"{name}: the work list is walked by `for .. in 0..list.len()` while the loop body appends to it: the bound is evaluated once, on entry, so only the entries present then (the instance's direct children) are processed and everything appended later — grandchildren and deeper — is left where it was", core.loc(n), instance=f"worklist-src:{name}")
            if srcs:
                n_src += 1
                if all("children" in p[:1] for r, p in srcs):
                    c.ok(R, f"worklist-src:{name}")
                else:
                    c.violation(R, f"worklist-src|{name}", f"{name}: work list is extended from {srcs}, expected the removed instance's `children`", fn.sp, instance=f"worklist-src:{name}")
    c.floor(R, n_guard, 1, "guarded unlink sites")
    c.floor(R, n_src, 2, "removal loops with a work list")


_CLOSURES = {}


def closure_nodes(prog):
    """{closure def path: HIR Closure node} over rbx_dom_weak"""
    if id(prog) not in _CLOSURES:
        _CLOSURES.clear()
        m = {}
        for path, fn in prog.fns.items():
            if fn.crate == "rbx_dom_weak" and fn.body is not None and fn.dk != "Closure":
                for n in core.walk_fn(fn):
                    if n.get("k") == "Closure" and n.get("cdef"):
                        m[n["cdef"]] = n
        _CLOSURES[id(prog)] = m
    return _CLOSURES[id(prog)]


def closure_of(fn, op):
    """(closure fn path, [captured operands]) for the operand holding a closure value"""
    if not op or op.get("k") != "place":
        return None, []
    l = op["l"]
    for _ in range(6):
        nxt = None
        for bb in fn.mir["blocks"]:
            for st in bb["stmts"]:
                if st["k"] == "assign" and st["lhs"]["l"] == l and not st["lhs"].get("proj"):
                    rk = st.get("rk", "")
                    if rk.startswith("agg:closure:"):
                        return rk[len("agg:closure:"):], list(st.get("ops") or [])
                    if st.get("ops") and st["ops"][0].get("k") == "place":
                        nxt = st["ops"][0]["l"]
        if nxt is None:
            return None, []
        l = nxt
    return None, []


def rule_fresh(c, prog):
    """every way of making an InstanceBuilder gives it a referent of its own"""
    R = "C09.fresh"
    c.rule(R, "every struct-literal InstanceBuilder in rbx_dom_weak takes its `referent` from Ref::new() (a fresh, non-null referent) or from a Ref handed in by the caller (with_referent / set_referent): a constructor that starts from the null referent makes every instance built from it collide under Ref::none()")
    IB = "rbx_dom_weak::instance::InstanceBuilder"
    n = 0
    for path, fn in sorted(prog.fns.items()):
        if fn.crate != "rbx_dom_weak" or fn.body is None or fn.dk == "Closure" or "::test" in path:
            continue
        plids = {prm.get("lid") for prm in fn.params if (prm.get("ty") or "").endswith("referent::Ref")}
        for x in core.walk_fn(fn):
            if x.get("k") == "Struct" and x.get("def") == IB:
                fe = [f["e"] for f in x["fields"] if f["f"] == "referent"]
                if not fe:
                    if "base" in x:
                        continue      # `..self`: keeps the referent it already had
                    continue
                n += 1
                e = core.strip(fe[0])
                inst = f"{U.short_api(path) if path.startswith(DOM) else core.short(path)}"
                fresh = e.get("k") == "Call" and (core.callee(e) or "").endswith("referent::Ref::new")
                given = (e.get("k") == "Path" and e.get("lid") in plids) or \
                    (e.get("k") == "MethodCall" and e["m"] in ("into", "clone") and core.strip(e["recv"]).get("res") == "local" and core.strip(e["recv"]).get("lid") in {prm.get("lid") for prm in fn.params})
                kept = core.place_root(e)[0] == "self" and core.place_root(e)[1][-1:] == ["referent"]
                if fresh or given or kept:
                    c.ok(R, inst)
                else:
                    c.violation(R, f"{core.short(path)}|referent", f"{path} builds an InstanceBuilder whose referent is `{core.fingerprint(e, 3)}`, not a fresh Ref::new() (or a referent supplied by the caller): instances inserted from such builders share a referent — the second insert overwrites the first in the instance map and the parent lists the same Ref twice", core.loc(x), instance=inst)
    c.floor(R, n, 2, "InstanceBuilder constructors")
    # ... and Ref::new() itself is fresh against every other call in the process, whichever thread makes it: DOMs are
    # Send, instances move between DOMs (transfer, clone_into_external) and both key their maps by Ref.  A value made
    # from per-thread state alone (a thread_local counter, even under a process-wide random prefix) repeats on
    # another thread.  Accepted sources: randomness drawn on every call, or an atomic read-modify-write on a static.
    rn = prog.fns.get("rbx_types::referent::Ref::new")
    if rn is None or rn.body is None:
        raise core.AnchorMissing("rbx_types::referent::Ref::new")
    nodes = list(common_walk_inline(prog, rn.body, "rbx_types::referent", 2))
    per_call_random = [x for x in nodes if x.get("k") in ("Call", "MethodCall") and re.search(r"^rand::random$|rand::rng::Rng::(gen|random)$|^rand::Rng::(gen|random)$|getrandom::|uuid::Uuid::new_v4$|Rng>?::r#?gen$", core.callee(x) or "")]
    atomic_rmw = [x for x in nodes if x.get("k") == "MethodCall" and x["m"] in ("fetch_add", "fetch_sub", "fetch_update", "compare_exchange", "compare_exchange_weak") and "atomic::Atomic" in ((core.strip(x["recv"]).get("ty") or "") + (x["recv"].get("aty") or ""))]
    tls = [x for x in nodes if "thread::local::LocalKey<" in ((x.get("ty") or "") + (x.get("aty") or ""))]
    inst = "Ref::new:fresh-across-threads"
    c.sample({"rule": R, "ref_new": {"per_call_random": len(per_call_random), "atomic_rmw": len(atomic_rmw), "thread_local": len(tls)}})
    if tls and not per_call_random:
        c.violation(R, "Ref::new|thread-local-state", "Ref::new builds its value from thread-local state without drawing randomness on every call: two threads hand out the same referents, and moving or cloning an instance into a DOM built on another thread (transfer, clone_into_external — WeakDom is Send) silently overwrites a live instance that has the same Ref", core.loc(tls[0]), instance=inst)
    elif not per_call_random and not atomic_rmw:
        c.violation(R, "Ref::new|no-fresh-source", "Ref::new neither draws randomness on every call nor advances an atomic counter: nothing makes two calls return different referents", rn.sp, instance=inst)
    else:
        c.ok(R, inst)


def common_walk_inline(prog, node, prefix, depth):
    from . import common
    return common.walk_inline(prog, node, prefix, depth)


# a work list of referents: a queue, or a vector walked with a cursor
WORKLIST_TY = re.compile(r"(VecDeque|alloc::vec::Vec)<rbx_types::referent::Ref")


def rule_acyc(c, prog):
    R = "C09.acyc"
    c.rule(R, "a function that re-parents an instance within one DOM (assigns Instance.parent without inner_remove/inner_insert) must first establish that the new parent is not inside the moved subtree (an ancestor walk: a loop reading Instance.parent, dominating the assignment)")
    n = 0
    for path, fn in sorted(U.api_fns(prog).items()):
        allm = D.field_mutations(fn)
        muts = [m for m in allm if m["field"] == U.F_PARENT and m["how"] == "assign"]
        if not muts:
            continue
        n += 1
        if any(m["field"] == U.F_INSTANCES and U.classify(m["how"]) in ("structural:remove", "structural:insert") for m in allm):
            c.ok(R, f"cross-dom:{path}")
            continue
        # look for a loop that reads .parent
        cfg = D.CFG(fn)
        has_walk = False
        # `ancestor = self.instances.get(&ancestor).map_or(Ref::none(), |i| i.parent)`: the read happens in a closure
        # handed to a call of the loop — the call counts as the read (matched to the MIR call by span)
        carriers = set()
        if fn.body is not None:
            for x in core.walk_fn(fn, into_closures=False):
                if x.get("k") in ("Call", "MethodCall"):
                    for a in x.get("args") or []:
                        a0 = core.strip(a)
                        if a0.get("k") == "Closure" and any((y.get("k") == "Field" and y.get("f") == "parent" and "Instance" in (core.strip(y["e"]).get("ty") or "")) or (y.get("k") == "MethodCall" and (core.callee(y) or "").endswith("Instance::parent")) for y in core.walk(a0["body"])):
                            carriers.add(x.get("sp"))
        for i, bb in enumerate(cfg.blocks):
            if bb["term"]["k"] == "call" and bb["term"].get("sp") in carriers and any(i in cfg.reachable_from(s_) for s_ in cfg.succ[i]):
                has_walk = True
            reads_parent = any(st["k"] == "assign" and any(U.F_PARENT in D.place_fields(op) for op in st.get("ops", []) if op.get("k") == "place") and D.last_field(st["lhs"]) != U.F_PARENT for st in bb["stmts"])
            calls_parent = bb["term"]["k"] == "call" and (bb["term"].get("fn") or "").endswith("Instance::parent")
            if (reads_parent or calls_parent) and i in cfg.reachable_from(i) - ({i} if i not in cfg.succ[i] else set()) | ({i} if any(i in cfg.reachable_from(s) for s in cfg.succ[i]) else set()):
                if any(i in cfg.reachable_from(s) for s in cfg.succ[i]):
                    has_walk = True
        inst = f"acyc:{path}"
        if has_walk:
            c.ok(R, inst)
        else:
            c.violation(R, f"{path}|no-ancestor-guard", f"{path} re-parents within one DOM without checking that the new parent is not a descendant of the moved instance: `transfer_within(a, child_of_a)` makes `a` its own ancestor and detaches the subtree from the root", muts[0]["sp"], instance=inst)


    c.floor(R, n, 2, "API functions assigning Instance.parent")


def rule_iter(c, prog):
    R = "C09.iter"
    c.rule(R, "WeakDomDescendants::next pops the front of its queue and extends it with the children of the popped instance only (parents before children)")
    fn = prog.fn("<rbx_dom_weak::dom::WeakDomDescendants<'a> as core::iter::traits::iterator::Iterator>::next")
    pops = U.calls_in(fn, r"VecDeque::<T, A>::pop_(front|back)$")
    if [cal.rsplit("::", 1)[-1] for _, cal, _ in pops] == ["pop_front"]:
        c.ok(R, "pop_front")
    else:
        c.violation(R, "iter|pop", f"descendants iterator pops {[cal for _, cal, _ in pops]}, expected a single pop_front (BFS, parents first)", fn.sp, instance="pop_front")
    bad = U.calls_in(fn, r"VecDeque::<T, A>::(push_front|insert|rotate_\w+|swap|make_contiguous|sort\w*)$")
    if bad:
        c.violation(R, "iter|order", f"descendants iterator reorders its queue via {[cal for _, cal, _ in bad]}", fn.sp)
    # what is appended to the queue: the children of the popped instance, all of them, nothing else —
    # `queue.extend(instance.children())` or `for c in <instance children> { queue.push_back(c) }`
    adds = [n for n in core.walk_fn(fn) if n.get("k") == "MethodCall" and n["m"] in ("extend", "push_back") and "VecDeque" in ((n["recv"].get("ty") or "") + (n["recv"].get("aty") or ""))]
    lets = {st["pat"].get("lid"): st["init"] for st in core.walk_lets(fn.body) if "init" in st and st["pat"].get("k") == "Binding"}

    def is_children_of_popped(e):
        """`<instance>.children()` / `.children` where <instance> was looked up by the popped referent"""
        _r, path = core.place_root(e)
        names = [p.strip(".()") for p in path]
        return "children" in names
    ok = False
    if len(adds) == 1:
        n = adds[0]
        if n["m"] == "extend" and n["args"]:
            ok = is_children_of_popped(n["args"][0])
        elif n["m"] == "push_back":
            for m in core.walk_fn(fn):
                fl = core.as_for(m)
                if fl is not None and any(x is n for x in core.walk(fl[2])) and is_children_of_popped(fl[1]):
                    a = core.strip(n["args"][0])
                    bl = []
                    stack = [fl[0]]
                    while stack:
                        x = stack.pop()
                        if isinstance(x, dict):
                            if x.get("k") == "Binding":
                                bl.append(x["lid"])
                            stack.extend(v for v in x.values() if isinstance(v, (dict, list)))
                        elif isinstance(x, list):
                            stack.extend(x)
                    # pushed unconditionally
                    cond = any(y.get("k") in ("If", "Match") and y.get("src") not in ("ForLoopDesugar", "TryDesugar") and any(z is n for z in core.walk(y)) for y in core.walk(fl[2]))
                    ok = any(z.get("k") == "Path" and z.get("lid") in bl for z in core.walk(a)) and not cond
    if ok:
        c.ok(R, "extend-children")
    else:
        c.violation(R, "iter|extend", "descendants iterator does not extend its queue with exactly the children of the popped instance", fn.sp, instance="extend-children")


INST_MAP = re.compile(r"HashMap<rbx_types::referent::Ref, rbx_dom_weak::instance::Instance")


def _peel(ty):
    ty = ty or ""
    while ty.startswith("&"):
        ty = ty[5:] if ty.startswith("&mut ") else ty[1:]
    return ty.replace("ahash::hash_map::A", "").replace("std::collections::hash::map::", "")


def _spk(n):
    parts = (n.get("sp") or "").split(":")
    try:
        return (int(parts[1]), int(parts[2]))
    except (IndexError, ValueError):
        return (0, 0)


def rule_guard(c, prog, R="C09.guard", constructors=True):
    """what the operations accept: a stored instance never replaces a live one, is never filed under the null referent,
    and the checks an operation documents run before it changes anything; every constructor yields a DOM with a root"""
    c.rule(R, "rbx_dom_weak::dom: (1) the map insert that files a new instance is preceded by a vacancy test (or uses the value it returns): a builder / transferred instance whose referent is already in the DOM must not silently replace that instance; (2) a builder's referent is tested for null before it is used as a key; (3) in insert / transfer / transfer_within the lookup that panics on a missing (new) parent comes before the first change to either DOM; (4) every function that builds a WeakDom sets a root that is in the instance map")
    dom_fns = [f for f in prog.lib_fns() if f.body is not None and f.crate == "rbx_dom_weak" and "::dom::" in f.path]
    # (1) overwrite
    for f in dom_fns:
        for blk in core.walk_fn(f):
            if blk.get("k") != "Block":
                continue
            for st in blk["b"]["stmts"]:
                e = st.get("e")
                if st.get("k") != "Semi" or e is None:
                    continue
                e0 = core.strip(e)
                if e0.get("k") == "MethodCall" and e0["m"] == "insert" and INST_MAP.search(_peel(core.strip(e0["recv"]).get("ty") or e0["recv"].get("aty"))):
                    key = core.strip(e0["args"][0])
                    tested = any(y.get("k") == "MethodCall" and y["m"] in ("contains_key", "get", "entry") and INST_MAP.search(_peel(core.strip(y["recv"]).get("ty"))) and core.strip(y["args"][0]).get("lid") == key.get("lid") and _spk(y) < _spk(e0) for y in core.walk_fn(f))
                    inst = f"store:{U.short_api(f.path)}"
                    if tested:
                        c.ok(R, inst)
                    else:
                        c.violation(R, f"overwrite|{U.short_api(f.path)}", f"{f.path} files an instance with `instances.insert(referent, instance)` and drops the value insert returns, without a vacancy test: a builder whose referent was pinned with `with_referent`, or an instance transferred from another DOM, silently REPLACES a live instance that has the same referent — the old parent still lists the referent, the replaced instance's children are orphaned, and `descendants()` can yield an instance twice or never end", core.loc(e0), instance=inst)
    # (2) null referent, (3) late checks: per public operation
    ops = {U.short_api(f.path): f for f in dom_fns if (f.d.get("vis") or "").startswith("Public")}
    for name in ("WeakDom::insert", "WeakDom::transfer", "WeakDom::transfer_within"):
        f = ops.get(name)
        if f is None:
            raise core.AnchorMissing(name)
        bodies = [f] + [g for g in prog.fns.values() if g.body is not None and g.path.startswith(f.path + "::") and g.dk != "Closure"]
        if name == "WeakDom::insert":
            null_tests = [y for b in bodies for y in core.walk_fn(b) if y.get("k") == "MethodCall" and y["m"] in ("is_some", "is_none") and (core.strip(y["recv"]).get("k") == "Field" and core.strip(y["recv"]).get("f") == "referent")]
            if null_tests:
                c.ok(R, "insert:referent-not-null")
            else:
                c.violation(R, "null-referent|WeakDom::insert", "WeakDom::insert never looks at whether the builder's referent is null (`with_referent(Ref::none())` is accepted): the instance is filed under the null key, its parent lists a null child, and its own children — linked only `if parent.is_some()` — are stored with no parent and listed by nobody", f.sp, instance="insert:referent-not-null")
        for b in bodies:
            muts = [y for y in core.walk_fn(b) if (y.get("k") == "MethodCall" and (y["m"] in ("inner_insert", "inner_remove") or (y["m"] in ("insert", "remove") and INST_MAP.search(_peel(core.strip(y["recv"]).get("ty") or y["recv"].get("aty")))))) or (y.get("k") == "Assign" and core.strip(y["l"]).get("k") == "Field" and core.strip(y["l"]).get("f") in ("parent", "children"))]
            checks = []
            plids = {q["lid"] for prm in b.params for q in core.walk(prm) if q.get("k") == "Binding"}
            for y in core.walk_fn(b):
                if y.get("k") == "MethodCall" and y["m"] in ("unwrap_or_else", "expect", "unwrap"):
                    r = core.strip(y["recv"])
                    if r.get("k") == "MethodCall" and r["m"] in ("get", "get_mut") and INST_MAP.search(_peel(core.strip(r["recv"]).get("ty") or r["recv"].get("aty"))):
                        k = core.strip(r["args"][0])
                        while k.get("k") in ("AddrOf", "Unary"):
                            k = core.strip(k["e"])
                        nm = k.get("name") or ""
                        if k.get("lid") in plids and "parent" in nm:
                            checks.append((y, nm))
            def tested_before(first_mut, nm):
                """an earlier look-up of the same parameter in the instance map, in front of every change: `if
                !self.instances.contains_key(&dest) { panic!(..) }` (the later get_mut().unwrap_or_else() that fetches the
                `&mut` is then no longer the check)"""
                for y in core.walk_fn(b):
                    if y.get("k") == "MethodCall" and y["m"] in ("contains_key", "get", "get_mut") and INST_MAP.search(_peel(core.strip(y["recv"]).get("ty") or y["recv"].get("aty"))) and _spk(y) < _spk(first_mut):
                        k = core.strip(y["args"][0])
                        while k.get("k") in ("AddrOf", "Unary"):
                            k = core.strip(k["e"])
                        if k.get("lid") in plids and (k.get("name") or "") == nm:
                            return True
                return False
            for chk, nm in checks:
                inst = f"precondition:{name}:{nm}"
                early = [m_ for m_ in muts if _spk(m_) < _spk(chk)]
                if early and tested_before(min(early, key=_spk), nm):
                    early = []
                if early and b is not f:
                    # the check sits in a local helper (`fn insert(dom, builder, parent, ..)`): it is early enough when
                    # the operation itself looks the value up before it calls the helper for the first time — at every
                    # call that passes one of the operation's own parameters (other arguments are referents the
                    # operation has just stored)
                    idx = [i_ for i_, prm in enumerate(b.params) if any(q.get("k") == "Binding" and q.get("name") == nm for q in core.walk(prm))]
                    calls = [y for y in core.walk_fn(f) if y.get("k") == "Call" and (core.callee(y) or "") == b.path]
                    fpl = {q["lid"]: q.get("name") for prm in f.params for q in core.walk(prm) if q.get("k") == "Binding"}
                    if idx and calls:
                        first = min(calls, key=_spk)
                        okc = True
                        for cl in calls:
                            a = core.strip(cl["args"][idx[0]])
                            if a.get("k") == "Path" and a.get("lid") in fpl:
                                pn = fpl[a["lid"]]
                                if not any(y.get("k") == "MethodCall" and y["m"] in ("contains_key", "get", "get_mut") and INST_MAP.search(_peel(core.strip(y["recv"]).get("ty") or y["recv"].get("aty"))) and _spk(y) < _spk(first) and (lambda k: k.get("lid") == a["lid"])(core.strip(core.strip(y["args"][0]).get("e", core.strip(y["args"][0])))) for y in core.walk_fn(f, into_closures=False)):
                                    okc = False
                        if okc:
                            early = []
                if early:
                    c.violation(R, f"late-check|{name}|{nm}", f"{name} checks that `{nm}` exists only after it has already changed the DOM ({len(early)} earlier mutation(s), first at {core.loc(early[0])}): when the new parent is one of the instances being stored or moved the documented panic never fires and the instance ends up its own ancestor; when it is missing altogether the panic leaves the DOM half-changed", core.loc(chk), instance=inst)
                else:
                    c.ok(R, inst)
    # (4) constructors
    for f in (dom_fns if constructors else []):
        sig = f.d.get("sig") or ""
        if not sig.endswith("-> rbx_dom_weak::dom::WeakDom") or sig.startswith("fn(&") or "self" in [prm.get("name") for prm in f.params]:
            continue
        lits = [x for x in core.walk_fn(f) if x.get("k") == "Struct" and (x.get("def") or "").endswith("dom::WeakDom")]
        for lit in lits:
            root = next((fl["e"] for fl in lit["fields"] if fl.get("f") == "root_ref"), None)
            inst = f"constructor:{U.short_api(f.path)}"
            r0 = core.strip(root) if root is not None else {}
            if r0.get("k") == "Call" and (core.callee(r0) or "").endswith("Ref::none"):
                c.violation(R, f"no-root|{U.short_api(f.path)}", f"{f.path} builds a WeakDom whose root_ref is the null referent and whose instance map is empty: `root()` and `descendants()` panic, and no operation can give that DOM a root afterwards", core.loc(lit), instance=inst)
            else:
                c.ok(R, inst)


def run(c, prog):
    rule_who(c, prog)
    rule_link(c, prog)
    rule_acyc(c, prog)
    rule_iter(c, prog)
    rule_fresh(c, prog)
    rule_guard(c, prog)
    c.not_decided += ["the inductive invariant over every history (each operation's code is checked for the preserving shape; histories are not simulated)", "aliasing arguments such as transfer_within(x, x)"]
