"""C01.srctype — the Content column's source-type codes.  The writer turns each value's `ContentType` variant into a small
integer (and files the payload in a side array), the reader turns the integer back into a constructor.  The value comes
back only if that is a bijection between VARIANTS: a code chosen by looking inside the payload (`Uri(u) if u.is_empty()
=> 0`) sends two different values to one spelling, and two variants sharing a code or a code read back through the
constructor of another variant change the value's kind.  Decided from the two `match`es themselves:

  writer: the match over a `ContentType` scrutinee inside the Content encoder arm whose arms end in integer literals
  reader: the match over an integer inside the Content decoder arm whose arms build a `Content` through a constructor
          of rbx_types; the variant a constructor builds is read from the constructor's own body."""
import re

from sa import core, tables
from . import common

CT = "rbx_types::content::ContentType"


def _tail_lit(e):
    """integer literal an arm body evaluates to (`1`, `{ side effects; 1 }`), None when it is something else, "diverges"
    when the arm leaves the function"""
    e = core.strip(e)
    while e.get("k") == "Block":
        if "expr" not in e["b"]:
            return None
        e = core.strip(e["b"]["expr"])
    if e.get("k") in ("Ret", "Break", "Continue") or e.get("ty") == "!":
        return "diverges"
    v = core.lit_value(e)
    return v if isinstance(v, int) and not isinstance(v, bool) else None


def writer_table(prog):
    efn, em, earms = common.binary_encoder_arms(prog)
    arm = earms.get("Content")
    if arm is None:
        raise core.AnchorMissing("binary encoder: no Content arm")
    rows = []      # (variant name, code, guarded?, node)
    found = None
    for m in common.walk_inline(prog, arm["body"], "rbx_binary::serializer", depth=2):
        if m.get("k") != "Match" or m.get("src") not in (None, "Normal"):
            continue
        if CT not in (core.strip(m["e"]).get("ty") or ""):
            continue
        cand = []
        for a in m["arms"]:
            code = _tail_lit(a["body"])
            for alt in tables.pat_alts(a["pat"]):
                if alt[0] in ("ctor", "v", "struct") and alt[1]:
                    cand.append((alt[1].rsplit("::", 1)[-1], code, "guard" in a, a))
                elif alt[0] == "_" and code not in (None, "diverges"):
                    cand.append(("_", code, "guard" in a, a))
        if any(isinstance(r[1], int) for r in cand):
            found = m
            rows = cand
            break
    if found is None:
        raise core.AnchorMissing("binary encoder, Content arm: no match over ContentType that yields the source-type code")
    return found, rows


def ctor_variant(prog, path, depth=3):
    """the ContentType variant a constructor of `Content` builds (read from its body)"""
    f = prog.fns.get(path)
    if f is None or f.body is None:
        return None
    vs = set()
    for x in core.walk_fn(f):
        d = None
        if x.get("k") == "Path" and (x.get("def") or "").startswith(CT + "::"):
            d = x["def"]
        elif x.get("k") == "Call" and (core.callee(x) or "").startswith(CT + "::"):
            d = core.callee(x)
        elif x.get("k") == "Struct" and (x.get("def") or "").startswith(CT + "::"):
            d = x["def"]
        if d:
            vs.add(d[len(CT) + 2:].split("::")[0])
        elif depth and x.get("k") in ("Call", "MethodCall"):
            cal = core.callee(x) or ""
            if "rbx_types::content::" in cal and cal != path:
                v = ctor_variant(prog, cal, depth - 1)
                if v:
                    vs.add(v)
    return next(iter(vs)) if len(vs) == 1 else None


def reader_table(prog):
    fn, darms = common.binary_decoder_arms(prog)
    arm = (darms.get("Content") or {}).get("Content")
    if arm is None:
        raise core.AnchorMissing("binary decoder: no (Content, Content) arm")
    for m in common.walk_inline(prog, arm["body"], "rbx_binary::deserializer", depth=2):
        if m.get("k") != "Match" or m.get("src") not in (None, "Normal"):
            continue
        rows = []
        for a in m["arms"]:
            lits = [alt[1] for alt in tables.pat_alts(a["pat"]) if alt[0] == "lit" and isinstance(alt[1], int)]
            if not lits:
                continue
            ctors = {core.callee(x) for x in core.walk(a["body"]) if x.get("k") == "Call" and re.match(r"^rbx_types::content::Content::\w+$", core.callee(x) or "")}
            for code in lits:
                rows.append((code, sorted(ctors), "guard" in a, a))
        if len(rows) >= 2 and any(r[1] for r in rows):
            return m, rows
    raise core.AnchorMissing("binary decoder, Content arm: no match over the source-type code that builds Content values")


def run(c, prog, R="C01.srctype"):
    c.rule(R, "Content column: the writer's variant -> source-type code table (the match over ContentType that yields the code) is a function of the VARIANT alone (no guarded arm, no two variants with one code), and the reader's code -> constructor table sends every code back through a constructor that builds the variant it was written for")
    wm, wrows = writer_table(prog)
    rm, rrows = reader_table(prog)
    by_variant = {}
    for v, code, guarded, a in wrows:
        by_variant.setdefault(v, []).append((code, guarded, a))
    rcode = {}
    for code, ctors, guarded, a in rrows:
        rcode.setdefault(code, []).append((ctors, guarded, a))
    c.sample({"rule": R, "writer": {v: [(k, g) for k, g, _a in rows] for v, rows in by_variant.items()}, "reader": {str(k): [(ct, g) for ct, g, _a in rows] for k, rows in rcode.items()}})
    n = 0
    seen = {}
    for v, rows in sorted(by_variant.items()):
        codes = [r for r in rows if isinstance(r[0], int)]
        if not codes:
            continue      # a variant the writer refuses (an error exit): C01.total's business
        n += 1
        inst = f"srctype:{v}"
        distinct = sorted({k for k, _g, _a in codes})
        if any(g for _k, g, _a in codes) and len(distinct) > 1:
            c.violation(R, f"value-dependent|{v}", f"the Content writer gives ContentType::{v} the source type {distinct} depending on the payload (a guarded arm): the values sent to the other code lose their kind — e.g. Content::from_uri(\"\") written as source type {distinct[0]} reads back as what the reader builds for {distinct[0]}, not as a Uri", core.loc(codes[0][2]["body"]), instance=inst)
            continue
        code = distinct[0]
        if code in seen:
            c.violation(R, f"collision|{v}", f"ContentType::{v} and ContentType::{seen[code]} are both written as source type {code}", core.loc(codes[0][2]["body"]), instance=inst)
            continue
        seen[code] = v
        back = rcode.get(code)
        if not back:
            c.violation(R, f"unread|{v}", f"ContentType::{v} is written as source type {code}, which the reader's table does not decode", core.loc(rm), instance=inst)
            continue
        if any(g for _ct, g, _a in back):
            c.violation(R, f"reader-guard|{v}", f"the reader decides what source type {code} means by a guard: part of the values written as ContentType::{v} come back as something else", core.loc(back[0][2]["body"]), instance=inst)
            continue
        built = {ctor_variant(prog, ct) for ct in back[0][0]}
        if built == {v}:
            c.ok(R, inst)
        else:
            c.violation(R, f"not-inverse|{v}", f"ContentType::{v} is written as source type {code}; the reader builds {sorted(core.short(x) for x in back[0][0])} for that code, which makes ContentType::{sorted(str(b) for b in built)}", core.loc(back[0][2]["body"]), instance=inst)
    c.floor(R, n, 3, "ContentType variants the writer gives a source-type code")
