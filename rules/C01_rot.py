"""C01.rot — the 24 basic rotation ids: literal table of from_basic_rotation_id vs the id formula of
to_basic_rotation_id / to_normal_id; two-sided epsilon lint on approx_unit_or_zero."""
from sa import core, tables

R = "C01.rot"
M3 = "rbx_types::basic_types::Matrix3"
V3 = "rbx_types::basic_types::Vector3"


def lit_f(n):
    v = core.lit_value(n)
    if v is None:
        return None
    try:
        return float(v)
    except (TypeError, ValueError):
        return None


def matrix_of(e):
    """Literal rows of Matrix3::new(Vector3::new(a,b,c), ...) or Matrix3::identity()."""
    e = tables.unwrap_ok_some(e)
    if e.get("k") != "Call":
        return None
    f = e["f"].get("def")
    if f == M3 + "::identity":
        return "identity"
    if f != M3 + "::new" or len(e["args"]) != 3:
        return None
    rows = []
    for a in e["args"]:
        a = core.strip(a)
        if a.get("k") != "Call" or a["f"].get("def") != V3 + "::new" or len(a["args"]) != 3:
            return None
        row = [lit_f(x) for x in a["args"]]
        if any(x is None for x in row):
            return None
        rows.append(row)
    return rows


def run(c, prog):
    c.rule(R, "rotation ids: each literal arm of from_basic_rotation_id is a signed permutation matrix whose id equals the formula of to_basic_rotation_id with the constants read from the code; the 24 arms are distinct; epsilon comparisons are two-sided")
    frm = prog.fn(M3 + "::from_basic_rotation_id")
    to = prog.fn(M3 + "::to_basic_rotation_id")
    nid_fn = prog.fn(V3 + "::to_normal_id")
    m = tables.top_match(frm)
    # identity()
    ident = prog.fn(M3 + "::identity")
    ib = core.strip(ident.body)
    idrows = None
    if ib.get("k") == "Struct":
        d = {f["f"]: core.strip(f["e"]) for f in ib["fields"]}
        try:
            idrows = [[lit_f(x) for x in d[k]["args"]] for k in ("x", "y", "z")]
        except Exception:
            idrows = None
    if idrows != [[1, 0, 0], [0, 1, 0], [0, 0, 1]]:
        c.violation(R, "identity|literal", f"Matrix3::identity() is not the literal unit matrix (read {idrows})", ident.sp)
    else:
        c.ok(R, "identity")
    # --- the id formula, by data flow: the value handed to Some(..) / then_some(..) is a polynomial A*n1 + n2 + B over
    # locals n_k = <vector>.to_normal_id()?, and each vector is a row/column of `self` (directly, through transpose(), or
    # spelled out component-wise).  Local names, hoisting and operand order are irrelevant.
    from sa import algebra
    from sa.algebra import Poly, NotAffine
    lets = {st["pat"]["lid"]: st["init"] for st in core.walk_lets(to.body) if st["pat"].get("k") == "Binding" and "init" in st}
    self_lid = to.params[0]["lid"]
    tr_fn = prog.fn(M3 + "::transpose")
    AX = ("x", "y", "z")

    def untry(e):
        e = core.strip(e)
        t = core.as_try(e)
        while t is not None:
            e = core.strip(t)
            t = core.as_try(e)
        return e

    def mat_of(e, depth=0):
        """('self'|'cand', transposed?) for a matrix-valued expression"""
        e = untry(e)
        if depth > 6:
            return None
        if e.get("k") == "Path" and e.get("res") == "local":
            if e["lid"] == self_lid:
                return ("self", False)
            if e["lid"] in lets:
                return mat_of(lets[e["lid"]], depth + 1)
            return None
        if e.get("k") == "MethodCall":
            if core.callee(e) == M3 + "::transpose":
                m0 = mat_of(e["recv"], depth + 1)
                return (m0[0], not m0[1]) if m0 else None
            if e["m"] in ("ok", "unwrap", "expect", "clone", "as_ref"):
                return mat_of(e["recv"], depth + 1)
        if e.get("k") == "Call" and core.callee(e) == M3 + "::from_basic_rotation_id":
            return ("cand", False)
        if e.get("k") in ("AddrOf", "Unary"):
            return mat_of(e["e"], depth + 1)
        return None

    def comp_of(e):
        """(base, row, col) for a scalar component expression `m.r.c`"""
        e = untry(e)
        if e.get("k") == "Field" and e["f"] in AX:
            inner = untry(e["e"])
            if inner.get("k") == "Field" and inner["f"] in AX:
                m0 = mat_of(inner["e"])
                if m0:
                    r, cc = inner["f"], e["f"]
                    return (m0[0], cc, r) if m0[1] else (m0[0], r, cc)
        return None

    def vec_of(e, depth=0):
        """(base, [(row, col) x3]) for a Vector3-valued expression"""
        e = untry(e)
        if depth > 6:
            return None
        if e.get("k") == "Path" and e.get("res") == "local" and e["lid"] in lets:
            return vec_of(lets[e["lid"]], depth + 1)
        if e.get("k") == "Field" and e["f"] in AX:
            m0 = mat_of(e["e"])
            if m0:
                f = e["f"]
                return (m0[0], [(a, f) for a in AX]) if m0[1] else (m0[0], [(f, a) for a in AX])
        if e.get("k") == "Call" and e["f"].get("def") == V3 + "::new" and len(e["args"]) == 3:
            cs = [comp_of(a) for a in e["args"]]
            if all(cs) and len({x[0] for x in cs}) == 1:
                return (cs[0][0], [(x[1], x[2]) for x in cs])
        if e.get("k") in ("AddrOf", "Unary"):
            return vec_of(e["e"], depth + 1)
        return None

    def nid_vec(e):
        e = untry(e)
        if e.get("k") == "MethodCall" and core.callee(e) == V3 + "::to_normal_id":
            return vec_of(e["recv"])
        return None
    nid_locals = {lid: nid_vec(init) for lid, init in lets.items() if nid_vec(init) is not None}

    def column(base, k):
        return (base, [(a, k) for a in AX])
    env = {}
    for lid in nid_locals:
        env[lid] = Poly.sym(f"n{lid}")

    def ev(e, depth=0):
        e0 = core.strip(e)
        if e0.get("k") == "Path" and e0.get("res") == "local" and e0["lid"] not in env and e0["lid"] in lets and depth < 6:
            env[e0["lid"]] = ev(lets[e0["lid"]], depth + 1)
        return algebra.poly_eval(e, env)
    results = []
    for n in core.walk_fn(to):
        if n.get("k") == "Call" and n["f"].get("def") == "core::option::Option::Some" and n["args"]:
            results.append(n["args"][0])
        if n.get("k") == "MethodCall" and n["m"] in ("then_some",) and n["args"]:
            results.append(n["args"][0])
    A = B = None
    x_src = y_src = None
    for rnode in results:
        try:
            # make sure the lets feeding the result are evaluated
            for x in core.walk(rnode):
                if x.get("k") == "Path" and x.get("res") == "local" and x["lid"] in lets and x["lid"] not in env:
                    env[x["lid"]] = ev(lets[x["lid"]])
            pl = algebra.poly_eval(rnode, env)
        except NotAffine:
            continue
        syms = {m[0]: v for m, v in pl.d.items() if len(m) == 1}
        if len(syms) == 2 and all(len(m) <= 1 for m in pl.d) and 1 in syms.values():
            (s1, v1), (s2, v2) = sorted(syms.items(), key=lambda kv: -kv[1])
            if v2 == 1 and v1 > 1:
                A, B = v1, pl.d.get((), 0)
                x_src, y_src = nid_locals[int(s1[1:])], nid_locals[int(s2[1:])]
    if A is None:
        raise core.AnchorMissing("to_basic_rotation_id: the returned id is not of the form A*nid(u) + nid(v) + B over two to_normal_id() results")
    if x_src != column("self", "x") or y_src != column("self", "y"):
        c.violation(R, "to_basic|columns", f"to_basic_rotation_id computes the id from {x_src} and {y_src}; the table of from_basic_rotation_id is indexed by the normal ids of the matrix's x and y *columns*", to.sp, instance="to_basic_rotation_id:columns")
    else:
        c.ok(R, "to_basic_rotation_id:columns")
    # transpose(): x = (x.x, y.x, z.x) ...
    tr = prog.fn(M3 + "::transpose")
    tb = core.strip(tr.body)
    tmap = {}
    if tb.get("k") == "Struct":
        for f in tb["fields"]:
            call = core.strip(f["e"])
            comps = []
            for a in call.get("args", []):
                root, path = core.place_root(a)
                comps.append(tuple(path))
            tmap[f["f"]] = comps
    want_t = {"x": [("x", "x"), ("y", "x"), ("z", "x")], "y": [("x", "y"), ("y", "y"), ("z", "y")], "z": [("x", "z"), ("y", "z"), ("z", "z")]}
    if tmap != want_t:
        c.violation(R, "transpose|shape", f"Matrix3::transpose is not the transpose: {tmap}", tr.sp)
    else:
        c.ok(R, "transpose")
    # --- normal id table from to_normal_id: arms (Some(x),Some(0),Some(0)) => get_normal_id(0,x) ...; get_normal_id: 1=>pos, -1=>pos+K
    # the helper is whatever function the arms of to_normal_id call with (position literal, component) — nested in
    # to_normal_id, at module level or an associated function alike
    callees = set()
    for arm in tables.top_match(nid_fn)["arms"]:
        b = core.strip(arm["body"])
        if b.get("k") == "Call" and len(b["args"]) == 2 and core.lit_value(b["args"][0]) is not None:
            callees.add(core.callee(b))
    gfn = [prog.fns[p_] for p_ in callees if p_ in prog.fns and prog.fns[p_].body is not None]
    if len(gfn) != 1:
        raise core.AnchorMissing("get_normal_id helper not found")
    gm, _, _ = tables.simple_map(gfn[0])
    neg_off = None
    pos_ok = False
    # get_normal_id(position, value): `1 => position`, `-1 => position + K` — the parameter is found by position
    # (first parameter), not by name
    pos_name = gfn[0].params[0].get("name") if gfn[0].params else None
    for k, v in gm.items():
        if k == ("lit", 1) and v[0] == "local" and v[1] == pos_name:
            pos_ok = True
        if k == ("lit", -1) and v[0] == "expr":
            e = v[1]
            if e.get("k") == "Binary" and e["op"] == "+":
                l, r = core.strip(e["l"]), core.strip(e["r"])
                if l.get("name") == pos_name and core.lit_value(r) is not None:
                    neg_off = core.lit_value(r)
                elif r.get("name") == pos_name and core.lit_value(l) is not None:
                    neg_off = core.lit_value(l)
    if not pos_ok or neg_off is None:
        raise core.AnchorMissing("get_normal_id: arms `1 => position`, `-1 => position + K` not recognised")
    nm = tables.top_match(nid_fn)
    axis_pos = {}
    for arm in nm["arms"]:
        p = arm["pat"]
        if p.get("k") != "Tuple":
            continue
        comps = []
        for q in p["pats"]:
            # `(Some(x), Some(0), Some(0))` over the three Options, or `(x, 0, 0)` once they were unwrapped with `?`
            inner = q["pats"][0] if q.get("k") == "TupleStruct" and q["pats"] else (q if q.get("k") in ("Binding", "Expr") else None)
            if inner is None:
                comps.append("?")
            elif inner.get("k") == "Binding":
                comps.append("var:" + inner["name"])
            elif inner.get("k") == "Expr":
                comps.append(inner["e"].get("lit", {}).get("v"))
        body = core.strip(arm["body"])
        if body.get("k") == "Call" and len(body["args"]) == 2:
            pos = core.lit_value(body["args"][0])
            arg = core.strip(body["args"][1]).get("name")
            for i, cc in enumerate(comps):
                if cc == "var:" + str(arg) and all(comps[j] == 0 for j in range(3) if j != i):
                    axis_pos[i] = pos
    if sorted(axis_pos) != [0, 1, 2]:
        raise core.AnchorMissing(f"to_normal_id: axis arms not recognised ({axis_pos})")

    def nid(vec):
        nz = [i for i, x in enumerate(vec) if x != 0]
        if len(nz) != 1 or abs(vec[nz[0]]) != 1:
            return None
        return axis_pos[nz[0]] + (neg_off if vec[nz[0]] < 0 else 0)

    seen = {}
    n_arms = 0
    for alt, arm in tables.table(m):
        if alt[0] != "lit":
            continue
        n_arms += 1
        rid = alt[1]
        rows = matrix_of(arm["body"])
        if rows == "identity":
            rows = [[1, 0, 0], [0, 1, 0], [0, 0, 1]]
        inst = f"rotid:{rid:#04x}"
        if rows is None:
            c.violation(R, f"rot|{rid:#04x}|shape", f"arm {rid:#04x} of from_basic_rotation_id is not a literal Matrix3", core.loc(arm["body"]), instance=inst)
            continue
        cols = [[rows[r][cc] for r in range(3)] for cc in range(3)]
        # signed permutation with determinant +1
        det = (rows[0][0] * (rows[1][1] * rows[2][2] - rows[1][2] * rows[2][1]) - rows[0][1] * (rows[1][0] * rows[2][2] - rows[1][2] * rows[2][0])
               + rows[0][2] * (rows[1][0] * rows[2][1] - rows[1][1] * rows[2][0]))
        ids = [nid(cc) for cc in cols]
        key = tuple(tuple(r) for r in rows)
        if any(i is None for i in ids) or any(nid(r) is None for r in rows) or det != 1:
            c.violation(R, f"rot|{rid:#04x}|not-rotation", f"arm {rid:#04x} is not a proper axis-aligned rotation (rows {rows}, det {det})", core.loc(arm["body"]), instance=inst)
            continue
        want = A * ids[0] + ids[1] + B
        if want != rid:
            c.violation(R, f"rot|{rid:#04x}|id", f"matrix of arm {rid:#04x} has id {want:#04x} by to_basic_rotation_id's formula ({A}*nid(col x)+nid(col y)+{B}): a CFrame with this orientation is written as {want:#04x} and read back as a different rotation", core.loc(arm["body"]), instance=inst)
        elif key in seen:
            c.violation(R, f"rot|{rid:#04x}|dup", f"arms {seen[key]:#04x} and {rid:#04x} hold the same matrix", core.loc(arm["body"]), instance=inst)
        else:
            seen[key] = rid
            c.ok(R, inst)
    c.floor(R, n_arms, 24, "rotation arms")
    c.sample({"rule": R, "formula": f"id = {A}*nid(col x) + nid(col y) + {B}", "normal_ids": {"axis_position": axis_pos, "negative_offset": neg_off}, "arms": n_arms})

    # --- the third axis: the id is derived from columns x and y only, so the z column must be compared with the candidate's
    ok = False
    for n in core.walk_fn(to):
        if n.get("k") == "Binary" and n["op"] in ("==", "!="):
            vs = []
            for sd in (n["l"], n["r"]):
                sd0 = core.strip(sd)
                v = None
                if sd0.get("k") == "Path" and sd0.get("res") == "local" and sd0.get("lid") in nid_locals:
                    v = nid_locals[sd0["lid"]]
                else:
                    v = nid_vec(sd)
                vs.append(v)
            if None in vs:
                continue
            if sorted(vs, key=lambda v: v[0]) == [column("cand", "z"), column("self", "z")]:
                # the comparison decides between Some(id) and None
                def decisive(cond):
                    """the comparison is the condition itself or a conjunct of it (under `||` it decides nothing)"""
                    cond = core.strip(cond)
                    if cond is n:
                        return True
                    if cond.get("k") == "Binary" and cond["op"] == "&&":
                        return decisive(cond["l"]) or decisive(cond["r"])
                    return False
                def has_some(e):
                    return any(x.get("k") == "Call" and x["f"].get("def") == "core::option::Option::Some" for x in core.walk(e))

                def has_none(e):
                    return any(x.get("k") == "Path" and x.get("def") == "core::option::Option::None" for x in core.walk(e))
                for m in core.walk_fn(to):
                    if m.get("k") == "If" and decisive(m["c"]):
                        inside = {id(x) for x in core.walk(m)}
                        rest_some = any(x.get("k") == "Call" and x["f"].get("def") == "core::option::Option::Some" and id(x) not in inside for x in core.walk_fn(to))
                        rest_none = any(x.get("k") == "Path" and x.get("def") == "core::option::Option::None" and id(x) not in inside for x in core.walk_fn(to))
                        if n["op"] == "==":
                            # `if eq { Some(id) } else { None }`, or the guard-clause `if eq { return Some(id) } None`
                            ok = ok or (has_some(m["t"]) and not has_none(m["t"]) and ((("f" in m) and has_none(m["f"]) and not has_some(m["f"])) or ("f" not in m and rest_none)))
                        else:
                            # `if ne { return None }  Some(id)` / `if ne { None } else { Some(id) }`
                            ok = ok or (has_none(m["t"]) and not has_some(m["t"]) and ((("f" in m) and has_some(m["f"])) or ("f" not in m and rest_some)))
                    if m.get("k") == "MethodCall" and m["m"] in ("then_some", "then") and decisive(m["recv"]) and n["op"] == "==":
                        ok = True
    # the candidate is the rotation for the id being returned
    if ok:
        cand_args = [x["args"][0] for x in core.walk_fn(to) if x.get("k") == "Call" and core.callee(x) == M3 + "::from_basic_rotation_id" and x["args"]]
        try:
            ok = bool(cand_args) and all(algebra.poly_eval(a, env) == algebra.poly_eval(results[0], env) for a in cand_args)
        except NotAffine:
            ok = False
    if ok:
        c.ok(R, "to_basic_rotation_id:third-axis-check")
    else:
        c.violation(R, "to_basic|z-check", "to_basic_rotation_id derives the id from the x and y columns only; without comparing the z column with the candidate rotation's, a matrix with axis-aligned columns that is not that rotation (a reflection such as diag(1,1,-1), or a collapsed basis) is written as a basic id and read back as a different matrix", to.sp, instance="to_basic_rotation_id:third-axis-check")

    # --- LINT: two-sided epsilon
    lint_epsilon(c, prog)


def lint_epsilon(c, prog):
    """A comparison `E <= EPSILON` (or <) whose left side is a difference must take abs() of the difference:
    `a.abs() - 1.0 <= EPS` accepts every |a| < 1 (one-sided)."""
    n_sites = 0
    for fn in prog.lib_fns():
        if fn.body is None:
            continue
        for n in core.walk_fn(fn):
            if n.get("k") == "Binary" and n["op"] in ("<=", "<"):
                r = core.strip(n["r"])
                if not (r.get("k") == "Path" and str(r.get("def", "")).endswith("::EPSILON")):
                    continue
                n_sites += 1
                l = core.strip(n["l"])
                inst = f"eps:{fn.path}:{core.fingerprint(l)}"
                if l.get("k") == "Binary" and l["op"] == "-":
                    c.violation(R, f"eps|{fn.path}|{core.fingerprint(l)}", f"one-sided epsilon test `{core.fingerprint(l)} {n['op']} EPSILON`: the difference is not wrapped in abs(), so every value below the target is accepted (e.g. 0.5 is treated as 1.0); the sibling branch uses abs() <= EPSILON", core.loc(n), instance=inst)
                elif l.get("k") == "MethodCall" and l["m"] == "abs":
                    c.ok(R, inst)
                else:
                    c.ok(R, inst)
    c.floor(R, n_sites, 2, "epsilon comparison sites")


def rule_exact(c, prog, R, who):
    """C14 / C06 do not list the snap C01 permits: where a value must come back equal, the short form (one rotation id
    instead of nine floats) may only be chosen for a matrix that IS one of the 24"""
    from sa import flow
    c.rule(R, "the test that replaces a rotation matrix by a one-byte rotation id is exact: no tolerance comparison (`.. <= EPSILON`) on the way from Matrix3::to_basic_rotation_id to its verdict — a matrix within epsilon of an axis-aligned one is otherwise written as the id and read back as a different matrix")
    g = flow.CallGraph(prog)
    root = prog.fn("rbx_types::basic_types::Matrix3::to_basic_rotation_id")
    reach = g.reach([root.path])
    tol = []
    for path in sorted(reach):
        fn = prog.fns[path]
        if fn.body is None or fn.crate != "rbx_types":
            continue
        for n in core.walk_fn(fn):
            if n.get("k") == "Binary" and n["op"] in ("<=", "<", ">", ">="):
                if any(y.get("k") == "Path" and str(y.get("def", "")).endswith("::EPSILON") for y in core.walk(n)):
                    tol.append((fn, n))
    inst = "rotation-id:exact-match"
    if tol:
        fns = sorted({core.short(f.path) for f, _n in tol})
        c.violation(R, "rotation-id|approximate-match|" + ",".join(fns), f"Matrix3::to_basic_rotation_id decides through {', '.join(fns)}, which accepts |v| <= EPSILON as 0 and ||v| - 1| <= EPSILON as 1: {who} writes such a matrix (Ry(pi) computed in f32, sin = -8.74e-8; an identity with a 1.0 + EPSILON entry; any -0.0 entry) as a rotation id and it is read back as the exact axis-aligned matrix, != the value written", core.loc(tol[0][1]), instance=inst)
    else:
        c.ok(R, inst)
