"""C01.queue — side arrays of a PROP arm are consumed in the order they were produced.

Some wire types (Content) store per-value payloads in separate arrays (Uris, ObjectRefs) that the reader
drains while walking the per-value SourceTypes.  The k-th value of kind X must receive the k-th element of X's array,
on both sides.  Orientation analysis of every local sequence in an encoder / decoder arm that is filled or
drained through an end-specific operation:

  state: empty | + (front = first element in file order) | - (front = last)
  new / with_capacity -> empty;  any other initialiser (vec![..].into(), collect, from) -> +
  push / push_back / extend: empty,+ -> + ; - -> ?       push_front: empty,- -> - ; + -> ?
  reverse(): + <-> -       in-place positional fills (make_contiguous, as_mut_slices, iter_mut, index) keep the state
  pop_front requires + ; pop_back / pop require - ; iteration requires +, iteration through .rev() requires -
  any other mutating method -> ? (reported as cannot-analyse, fail closed)

The rule decides the *order* clause only (not which array a value draws from: that is C01.arm's business once the
queue model exists there)."""
import re

from sa import core
from . import common

SEQ_TY = re.compile(r"^(&(mut )?)?(alloc::collections::vec_deque::VecDeque|alloc::vec::Vec)<")
GROW_BACK = {"push", "push_back", "extend", "extend_from_slice"}
GROW_FRONT = {"push_front"}
KEEP = {"make_contiguous", "as_mut_slices", "as_mut_slice", "iter_mut", "len", "is_empty", "iter", "get", "capacity", "as_slice", "as_ref",
        "clone", "first", "last", "front", "back", "reserve", "contains", "into_iter", "as_mut", "deref", "deref_mut", "borrow", "borrow_mut", "to_vec", "into", "into_boxed_slice", "as_ptr"}
DRAIN_FRONT = {"pop_front"}
DRAIN_BACK = {"pop_back", "pop"}


def seq_locals(body):
    """{lid: (name, let stmt)} for Vec / VecDeque locals declared below body"""
    out = {}
    for st in core.walk_lets(body):
        p = st.get("pat") or {}
        if p.get("k") == "Binding" and SEQ_TY.match(p.get("ty", "")):
            out[p["lid"]] = (p["name"], st)
    return out


def root_local(n):
    """(lid, [method names applied on the way]) of a receiver / iterable expression"""
    chain = []
    n = core.strip(n)
    while True:
        if n.get("k") == "MethodCall":
            chain.append(n["m"])
            n = core.strip(n["recv"])
        elif n.get("k") in ("AddrOf", "Unary", "Cast", "DropTemps", "Use"):
            n = core.strip(n["e"])
        elif n.get("k") == "Call" and len(n.get("args", [])) == 1 and (core.callee(n) or "").endswith("::into_iter"):
            n = core.strip(n["args"][0])
        else:
            break
    if n.get("k") == "Path" and n.get("res") == "local":
        return n["lid"], list(reversed(chain))
    return None, []


def orient(body, lid, st):
    """walk the operations on local `lid` in source order; returns (problems, n_end_ops)"""
    init = core.strip(st["init"]) if st.get("init") is not None else None
    state = "+"
    if init is not None and init.get("k") == "Call" and re.search(r"::(new|with_capacity|default)$", core.callee(init) or ""):
        state = "empty"
    problems = []
    ends = 0
    seen = set()
    for n in core.walk(body):
        if n.get("k") == "MethodCall" and id(n) not in seen:
            l, chain = root_local(n)
            if l != lid or not chain:
                continue
            # the operation applied directly on the local is chain[0]; later links operate on the result
            # (iterators): only `rev` matters there
            # mark inner links as seen so that `x.iter().rev()` is handled once, at the outermost call
            inner = core.strip(n["recv"])
            while inner.get("k") == "MethodCall":
                seen.add(id(inner))
                inner = core.strip(inner["recv"])
            m = chain[0]
            where = core.loc(n)
            if m in GROW_BACK:
                if state in ("empty", "+"):
                    state = "+"
                else:
                    problems.append(("mixed", f"`{m}` on a sequence filled from the front", where)); state = "?"
            elif m in GROW_FRONT:
                ends += 1
                if state in ("empty", "-"):
                    state = "-"
                else:
                    problems.append(("mixed", f"`{m}` on a sequence filled from the back", where)); state = "?"
            elif m == "reverse":
                state = {"+": "-", "-": "+"}.get(state, state)
            elif m in DRAIN_FRONT or m in DRAIN_BACK:
                ends += 1
                need = "+" if m in DRAIN_FRONT else "-"
                if state == "?":
                    continue
                if state != need:
                    problems.append(("order", f"`{m}` takes the {'last' if state == '+' else 'first'} element in file order first (sequence is {'front=first' if state == '+' else 'front=last'}): the k-th consumer receives the (n-1-k)-th element", where))
            elif m in ("iter", "into_iter", "iter_mut", "drain") or m in KEEP:
                if m in ("iter", "into_iter", "drain"):
                    ends += 1        # consumed in order: as order-relevant as a pop
                if "rev" in chain[1:]:
                    ends += 1
                    if state == "+":
                        problems.append(("order", "iterated through `.rev()`: elements are produced in reverse file order", where))
                elif m in ("iter", "into_iter", "drain") and state == "-":
                    problems.append(("order", f"`{m}` walks a sequence whose front is the last element in file order", where))
            else:
                problems.append(("cannot-analyse", f"method `{m}` on a side array is outside the orientation model", where)); state = "?"
    return problems, ends, state


def run(c, prog, R="C01.queue"):
    c.rule(R, "side arrays of a PROP arm (Content: Uris, ObjectRefs) are filled and drained in the same order on both sides: orientation analysis (front=first / front=last) of every Vec/VecDeque local of an encoder or decoder arm; pop_front needs front=first, pop_back/pop need front=last, `.rev()` flips")
    dfn, darms = common.binary_decoder_arms(prog)
    efn, _em, earms = common.binary_encoder_arms(prog)
    n_locals = 0
    n_end = 0
    for side, fn, arms in (("dec", dfn, {t: a for t, d in darms.items() for v, a in d.items() if v != "_" for t in [f"{t}/{v}"]}), ("enc", efn, {t: a for t, a in earms.items() if t != "_"})):
        for t, arm in sorted(arms.items()):
            body = arm["body"]
            for lid, (name, st) in sorted(seq_locals(body).items()):
                n_locals += 1
                problems, ends, state = orient(body, lid, st)
                n_end += 1 if ends else 0
                inst = f"{side}:{t}:{name}"
                if not problems:
                    c.ok(R, inst)
                for kind, msg, where in problems:
                    c.violation(R, f"{side}|{t}|{name}|{kind}", f"{'decode_prop_chunk' if side == 'dec' else 'serialize_properties'} arm {t}: side array `{name}`: {msg}. Two or more values of this kind in one class column come back permuted", where, instance=inst)
    c.floor(R, n_locals, 40, "sequence locals in encoder/decoder arms")
    c.floor(R, n_end, 2, "sequence locals consumed in an order-relevant way (pops, iteration): Content uris / objects among them")
