"""Computed discharge for `state.tree.get_by_ref(_mut)(id).unwrap()/expect()` in the XML reader: the key is the id of an
instance this decode inserted (provenance followed through locals, parameters of private functions — all call
sites — and the `id` field of rewrite records — all constructions), and nothing reachable from the XML decoder removes
instances from the tree."""
from sa import core

INSERT = "rbx_dom_weak::dom::WeakDom::insert"
REMOVERS = ("rbx_dom_weak::dom::WeakDom::destroy", "rbx_dom_weak::dom::WeakDom::transfer", "rbx_dom_weak::dom::WeakDom::transfer_within")


def is_tree_lookup(site):
    n = site["node"]
    if n.get("k") != "MethodCall" or n["m"] not in ("unwrap", "expect"):
        return None
    r = core.strip(n["recv"])
    if r.get("k") == "MethodCall" and r["m"] in ("get_by_ref", "get_by_ref_mut") and r["args"]:
        _root, path = core.place_root(r["recv"])
        if [p for p in path if not p.startswith(".")][-1:] == ["tree"]:
            return r["args"][0]
    return None


class Provenance:
    def __init__(self, prog, crate="rbx_xml"):
        self.prog = prog
        self.crate = crate
        self.fns = [f for f in prog.fns.values() if f.crate == crate and f.body is not None and f.dk != "Closure"]
        self._calls = None
        self._lits = None

    def call_sites(self, path):
        if self._calls is None:
            self._calls = {}
            for f in self.fns:
                for n in core.walk_fn(f):
                    if n.get("k") in ("Call", "MethodCall"):
                        cal = core.callee(n)
                        if cal:
                            self._calls.setdefault(cal, []).append((f, n))
        return self._calls.get(path, [])

    def struct_lits(self, adt):
        if self._lits is None:
            self._lits = {}
            for f in self.fns:
                for n in core.walk_fn(f):
                    if n.get("k") == "Struct" and n.get("def"):
                        self._lits.setdefault(n["def"], []).append((f, n))
        return self._lits.get(adt, [])

    def collected_tuple_element(self, fn, org):
        """`for (a, b, ..) in v` where `v = <iter>.map/filter_map(|x| .. (ea, eb, ..) ..).collect()`: the expression that
        produced the element the binding names (None when the binding is not of that shape)"""
        chain, scrut = org
        idx = [i for d, i in chain if d == "Tuple"]
        if len(idx) != 1:
            return None
        origins = core.binding_origins(fn)

        def local_of(e):
            e = core.strip(e)
            while e.get("k") in ("AddrOf", "Unary", "DropTemps"):
                e = core.strip(e["e"])
            if e.get("k") in ("Call", "MethodCall"):
                args = core.call_args(e)
                nm = (core.callee_generic(e) or "").rsplit("::", 1)[-1]
                if nm in ("next", "into_iter", "iter", "drain") and args:
                    return local_of(args[0])
                return None
            return e if e.get("k") == "Path" and e.get("res") == "local" else None
        cur = local_of(scrut)
        hops = 0
        init = None
        while cur is not None and hops < 4:
            hops += 1
            o = origins.get(cur["lid"])
            if o is None or o[1] is None:
                return None
            nxt = local_of(o[1])
            if nxt is None:
                init = o[1]
                break
            cur = nxt
        if init is None:
            return None
        col = core.strip(init)
        if not (col.get("k") == "MethodCall" and col["m"] == "collect"):
            return None
        e = core.strip(col["recv"])
        while e.get("k") == "MethodCall":
            if e["m"] in ("map", "filter_map") and e["args"] and core.strip(e["args"][0]).get("k") == "Closure":
                body = core.strip(core.strip(e["args"][0])["body"])
                while body.get("k") == "Block" and "expr" in body["b"]:
                    body = core.strip(body["b"]["expr"])
                if body.get("k") == "Call" and (core.callee(body) or "").endswith("Option::Some") and body["args"]:
                    body = core.strip(body["args"][0])
                if body.get("k") == "Tup" and idx[0] < len(body["args"]):
                    return body["args"][idx[0]]
                return None
            e = core.strip(e["recv"])
        return None

    def accepted(self, fn, e, depth=0, seen=None):
        seen = seen or set()
        if depth > 10:
            return False
        e = core.strip(e)
        k = e.get("k")
        if k in ("AddrOf", "Unary", "Cast"):
            return self.accepted(fn, e["e"], depth, seen)
        if k == "MethodCall" and core.callee(e) == INSERT:
            return True
        if k == "MethodCall" and e["m"] in ("clone", "to_owned", "into", "unwrap", "expect", "copied") and not e["args"]:
            return self.accepted(fn, e["recv"], depth, seen)
        if k == "MethodCall" and e["m"] in ("root_ref",):
            return True     # the tree's own root always exists
        if k == "Path" and e.get("res") == "local":
            lid = e["lid"]
            key = (fn.path, lid)
            if key in seen:
                return True
            seen = seen | {key}
            # a let-bound local
            for st in core.walk_lets(fn.body):
                if st["pat"].get("lid") == lid and "init" in st:
                    return self.accepted(fn, st["init"], depth, seen)
            # a loop variable / pattern binding: follow its origin
            org = core.binding_origins(fn).get(lid)
            if org is not None and org[1] is not None:
                src = self.collected_tuple_element(fn, org)
                if src is not None:
                    return self.accepted(fn, src, depth + 1, seen)
                return self.accepted(fn, org[1], depth + 1, seen)
            # a parameter: every call site must pass an accepted id
            root = fn.d.get("root") or fn.path
            for i, prm in enumerate(fn.params):
                if prm.get("lid") == lid:
                    sites = self.call_sites(fn.path)
                    if not sites:
                        return False
                    for cf, cn in sites:
                        args = core.call_args(cn)
                        if i >= len(args) or not self.accepted(cf, args[i], depth + 1, seen):
                            return False
                    return True
            return False
        if k == "Field":
            base_ty = (core.strip(e["e"]).get("ty") or "").lstrip("&").replace("mut ", "").strip()
            lits = self.struct_lits(base_ty)
            if base_ty.startswith(self.crate + "::") and lits:
                for lf, ln in lits:
                    fe = [f["e"] for f in ln["fields"] if f["f"] == e["f"]]
                    if len(fe) != 1 or not self.accepted(lf, fe[0], depth + 1, seen):
                        return False
                return True
            return False
        return False


def no_removals(prog, g, dreach):
    return not any(r in dreach for r in REMOVERS)
