"""C10 — each WeakDom operation has exactly its documented effect.
C10.order (ordered containers touched only by order-preserving / FIFO operations), C10.frame (no unrelated
field writes), C10.conserve (transfer: every inner_remove is followed by the destination's inner_insert)."""
import re

from sa import core, discipline as D
from . import domutil as U
from .domutil import DOM

CHILDREN_OK = {"push": "append", "retain": "order-preserving removal", "retain_mut": "order-preserving removal", "extend": "append many",
               "extend_from_slice": "append many", "reserve": "capacity"}
FIFO_FNS = {
    DOM + "WeakDom::insert": "builder queue: children must be inserted in builder order",
    DOM + "WeakDom::insert::insert": "builder queue producer",
    DOM + "WeakDom::clone_within": "clone queue: child order of the copy",
    DOM + "WeakDom::clone_into_external": "clone queue: child order of the copy",
    DOM + "WeakDom::clone_multiple_into_external": "clone queue: child order of the copy",
    DOM + "CloneContext::clone_ref_as_builder": "clone queue producer",
    "<rbx_dom_weak::dom::WeakDomDescendants<'a> as core::iter::traits::iterator::Iterator>::next": "BFS order of descendants()",
}
FIFO_OK = {"new", "with_capacity", "push_back", "pop_front", "extend", "default", "from", "len", "is_empty", "reserve", "iter"}
UNORDERED_FNS = {DOM + "WeakDom::destroy": "removal order is unobservable", DOM + "WeakDom::transfer": "move order is unobservable (children lists are moved verbatim)"}


def rule_order(c, prog):
    R = "C10.order"
    c.rule(R, "Instance.children is mutated only by order-preserving operations (push/retain/extend); work queues whose order is observable are strict FIFOs (push_back/extend + pop_front)")
    muts = U.all_mutations(prog, [U.F_CHILDREN])
    n = 0
    for fn, cls, m in muts[U.F_CHILDREN]:
        if not m["how"].startswith("call:"):
            if m["how"] == "assign":
                c.violation(R, f"children|{fn}|assign", f"{fn} assigns Instance.children wholesale", m["sp"], instance=f"children|{fn}|assign")
            continue
        meth = m["how"].rsplit("::", 1)[-1]
        n += 1
        inst = f"children|{fn}|{meth}"
        if meth in CHILDREN_OK:
            c.ok(R, inst)
        elif meth == "insert":
            c.violation(R, f"children|{fn}|insert", f"{fn} calls children.insert(i, _): only appending keeps `last child of the new parent`; (insert at children.len() would be benign but cannot be shown here)", m["sp"], instance=inst)
        else:
            c.violation(R, f"children|{fn}|{meth}", f"{fn} calls `{meth}` on an instance's children list — not an order-preserving operation (allowed: {sorted(CHILDREN_OK)}): sibling order of untouched instances may change", m["sp"], instance=inst)
    c.floor(R, n, 6, "children mutation sites")
    nq = 0
    for path, why in FIFO_FNS.items():
        fn = prog.fn(path)
        for i, cal, t in U.calls_in(fn, r"alloc::collections::vec_deque::VecDeque::<T, A>::\w+$|VecDeque<T, A> as core::iter::traits::collect::Extend"):
            meth = "extend" if "Extend" in cal else cal.rsplit("::", 1)[-1]
            nq += 1
            inst = f"queue|{path}|{meth}"
            if meth in FIFO_OK:
                c.ok(R, inst)
            else:
                c.violation(R, f"queue|{path}|{meth}", f"{path} uses VecDeque::{meth} on a queue whose order is observable ({why}); only push_back/extend + pop_front keep FIFO order", t.get("sp", ""), instance=inst)
    c.floor(R, nq, 8, "FIFO queue operations")
    # any other function of the crate using a VecDeque must be classified
    for path, fn in sorted(prog.fns.items()):
        if fn.crate != "rbx_dom_weak" or path in FIFO_FNS or path in UNORDERED_FNS or not fn.mir:
            continue
        root = fn.d.get("root")
        if root in FIFO_FNS or root in UNORDERED_FNS:
            continue
        if U.calls_in(fn, r"VecDeque::<T, A>::(pop_front|pop_back|push_front|push_back)$"):
            c.violation(R, f"queue|{path}|unclassified", f"{path} uses a VecDeque work queue that is not classified as FIFO-observable or unordered", fn.sp)


def rule_frame(c, prog):
    R = "C10.frame"
    c.rule(R, "no function of rbx_dom_weak::dom writes name / class / properties of an instance except the confirmed sites (UniqueId regeneration on collision, Ref rewriting on clones); Instance values are built from all five builder fields")
    allowed = {
        (U.F_PROPS, DOM + "WeakDom::inner_insert", "structural:insert"): "replaces the UniqueId property on collision (C12)",
        (U.F_PROPS, DOM + "CloneContext::rewrite_refs", "element:values_mut"): "rewrites Ref values of cloned instances (C11)",
    }
    muts = U.all_mutations(prog, [U.F_PROPS, U.F_NAME, U.F_CLASS])
    for field, sites in sorted(muts.items()):
        for fn, cls, m in sites:
            if not fn.startswith("rbx_dom_weak::"):
                continue     # clients own these public fields (documented); C12 checks the readers
            inst = f"{field}|{fn}|{cls}"
            if (field, fn, cls) in allowed:
                c.ok(R, inst)
            else:
                c.violation(R, f"{field}|{fn}|{cls}", f"{fn} mutates {field} ({cls}); operations must leave name/class/properties of every instance untouched", m["sp"], instance=inst)
    for key in allowed:
        field, fn, cls = key
        if not any(f == fn and cl == cls for f, cl, _ in muts[field]):
            c.violation(R, f"anchor|{field}|{fn}|{cls}", f"confirmed site disappeared: {fn} {cls} on {field}", "")
    # builder field coverage in insert::insert
    fn = prog.fn(DOM + "WeakDom::insert::insert")
    lit = [n for n in core.walk_fn(fn) if n.get("k") == "Struct" and n.get("def") == U.INST]
    if len(lit) != 1:
        raise core.AnchorMissing("insert::insert: Instance struct literal not found")
    src = {}
    for f in lit[0]["fields"]:
        root, path = core.place_root(f["e"])
        src[f["f"]] = (root, tuple(p for p in path if not p.startswith(".")))
    want = {"referent": ("builder", ("referent",)), "name": ("builder", ("name",)), "class": ("builder", ("class",)), "properties": ("builder", ("properties",)), "parent": ("parent", ())}
    for k, v in want.items():
        inst = f"build:{k}"
        if src.get(k) == v:
            c.ok(R, inst)
        else:
            c.violation(R, f"build|{k}", f"insert builds Instance.{k} from {src.get(k)}, expected {v}", core.loc(lit[0]), instance=inst)
    # children enqueued from builder.children with the new instance as parent
    pb = [n for n in core.walk_fn(fn) if n.get("k") == "MethodCall" and n["m"] in ("push_back", "push_front")]
    okq = False
    for n in pb:
        a = core.strip(n["args"][0]) if n["args"] else {}
        if a.get("k") == "Tup" and len(a["args"]) == 2:
            r0 = core.place_root(a["args"][0])
            r1 = core.place_root(a["args"][1])
            if r0 == ("builder", ["referent"]) and r1[0] == "child":
                okq = True
    if okq:
        c.ok(R, "build:children-enqueued")
    else:
        c.violation(R, "build|children", "insert does not enqueue (builder.referent, child) for each builder child", fn.sp, instance="build:children-enqueued")
    # return value = referent captured from the root builder
    ins = prog.fn(DOM + "WeakDom::insert")
    tail = core.strip(ins.body["b"].get("expr", {}))
    ok = False
    if tail.get("res") == "local":
        for st in ins.body["b"]["stmts"]:
            if st["k"] == "Let" and st["pat"].get("lid") == tail["lid"]:
                if core.place_root(st["init"]) == ("root_builder", ["referent"]):
                    ok = True
    if ok:
        c.ok(R, "insert:returns-root-referent")
    else:
        c.violation(R, "insert|return", "insert does not return root_builder.referent", ins.sp, instance="insert:returns-root-referent")


def rule_conserve(c, prog):
    R = "C10.conserve"
    c.rule(R, "in transfer every inner_remove is followed, on every path to the normal return, by an inner_insert on the destination (conservation of the combined instance set)")
    fn = prog.fn(DOM + "WeakDom::transfer")
    cfg = D.CFG(fn)
    rem = U.calls_in(fn, r"WeakDom::inner_remove$")
    ins = {i for i, cal, t in U.calls_in(fn, r"WeakDom::inner_insert$")}
    c.floor(R, len(rem), 2, "inner_remove sites in transfer")
    for i, cal, t in rem:
        inst = f"conserve:bb{len([x for x in rem if x[0] <= i])}"
        starts = t.get("targets", [])
        if ins and all(cfg.must_pass(s, ins, cfg.returns) for s in starts):
            c.ok(R, inst)
        else:
            c.violation(R, f"conserve|{inst}", "transfer: an instance removed from the source is not re-inserted into the destination on some path (instance lost)", t.get("sp", ""), instance=inst)
    # inner_insert receiver must be `dest`, inner_remove receiver `self`
    for n in core.walk_fn(fn):
        if n.get("k") == "MethodCall" and n["m"] in ("inner_insert", "inner_remove"):
            root = core.place_root(n["recv"])[0]
            want = "dest" if n["m"] == "inner_insert" else "self"
            inst = f"recv:{n['m']}"
            if root == want:
                c.ok(R, inst)
            else:
                c.violation(R, f"recv|{n['m']}|{root}", f"transfer calls {n['m']} on `{root}`, expected `{want}`", core.loc(n), instance=inst)
            if n["m"] == "inner_insert":
                k = core.place_root(n["args"][0])[0] if n["args"] else None
                if k == "referent":
                    c.ok(R, "key:inner_insert")
                else:
                    c.violation(R, f"key|inner_insert|{k}", f"transfer re-inserts under key `{k}`, expected the same `referent` that was removed", core.loc(n), instance="key:inner_insert")


def run(c, prog):
    rule_order(c, prog)
    rule_frame(c, prog)
    rule_conserve(c, prog)
    from . import C12, C09
    C09.rule_link(core.Alias(c, "C10"), prog)    # link / unlink pairing and ordering are also what `exactly its documented effect` needs
    C12.rule_book(core.Alias(c, "C10"), prog, reader_rule=False)    # membership changes only through inner_insert/inner_remove: nothing else adds or drops instances or ids
    c.not_decided += ["comparison with a reference model after every step of every history (a run)"]
