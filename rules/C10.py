"""C10 — each WeakDom operation has exactly its documented effect.
C10.order (ordered containers touched only by order-preserving / FIFO operations), C10.frame (no unrelated
field writes), C10.conserve (transfer: every inner_remove is followed by the destination's inner_insert)."""
import re

from sa import core, discipline as D
from . import domutil as U
from .domutil import DOM

CHILDREN_OK = {"push": "append", "retain": "order-preserving removal", "retain_mut": "order-preserving removal", "extend": "append many",
               "extend_from_slice": "append many", "reserve": "capacity"}
FIFO_OK = {"new", "with_capacity", "push_back", "pop_front", "extend", "default", "from", "len", "is_empty", "reserve", "iter"}
# public operations whose work-list order is unobservable (every other public function using a VecDeque is FIFO-strict)
UNORDERED_API = {DOM + "WeakDom::destroy": "removal order is unobservable", DOM + "WeakDom::transfer": "move order is unobservable (children lists are moved verbatim)"}
VECDEQUE_RX = r"alloc::collections::vec_deque::VecDeque::<T, A>::\w+$|VecDeque<T, A> as core::iter::traits::collect::Extend"


def rule_order(c, prog):
    R = "C10.order"
    c.rule(R, "Instance.children is mutated only by order-preserving operations (push/retain/extend); the work queues of every public function of rbx_dom_weak::dom (private helpers inlined) are strict FIFOs (push_back/extend + pop_front), except destroy / transfer whose processing order is unobservable")
    muts = U.all_mutations(prog, [U.F_CHILDREN])
    n = 0
    for fn, cls, m in muts[U.F_CHILDREN]:
        if not m["how"].startswith("call:"):
            if m["how"] == "assign":
                c.violation(R, f"children|{fn}|assign", f"{fn} assigns Instance.children wholesale", m["sp"], instance=f"children|{fn}|assign")
            continue
        meth = m["how"].rsplit("::", 1)[-1]
        n += 1
        inst = f"children|{fn}|{meth}"
        if meth in CHILDREN_OK:
            c.ok(R, inst)
        elif meth == "insert":
            c.violation(R, f"children|{fn}|insert", f"{fn} calls children.insert(i, _): only appending keeps `last child of the new parent`; (insert at children.len() would be benign but cannot be shown here)", m["sp"], instance=inst)
        else:
            c.violation(R, f"children|{fn}|{meth}", f"{fn} calls `{meth}` on an instance's children list — not an order-preserving operation (allowed: {sorted(CHILDREN_OK)}): sibling order of untouched instances may change", m["sp"], instance=inst)
    c.floor(R, n, 2, "children mutation sites")
    nq = 0
    covered = set()
    for path, fn in sorted(U.api_fns(prog).items()):
        covered.add(path)
        covered.update(fn.inlined)
        if path in UNORDERED_API:
            continue
        for i, cal, t in U.calls_in(fn, VECDEQUE_RX):
            meth = "extend" if "Extend" in cal else cal.rsplit("::", 1)[-1]
            nq += 1
            inst = f"queue|{U.short_api(path)}|{meth}"
            if meth in FIFO_OK:
                c.ok(R, inst)
            else:
                c.violation(R, f"queue|{path}|{meth}", f"{path} uses VecDeque::{meth} on a queue whose order is observable (child order of inserted / cloned instances, BFS order of descendants()); only push_back/extend + pop_front keep FIFO order", t.get("sp", ""), instance=inst)
    c.floor(R, nq, 8, "FIFO queue operations")
    # a private function of the crate that uses a VecDeque and is reached from no public function escapes the rule
    for path, fn in sorted(prog.fns.items()):
        if fn.crate != "rbx_dom_weak" or not fn.mir or fn.dk == "Closure" or "::test" in path:
            continue
        if path in covered or (fn.d.get("root") or path) in covered:
            continue
        if U.calls_in(fn, r"VecDeque::<T, A>::(pop_front|pop_back|push_front|push_back)$"):
            c.violation(R, f"queue|{path}|unclassified", f"{path} uses a VecDeque work queue but is not reached from a public function of rbx_dom_weak::dom: its queue discipline is unchecked", fn.sp)


def rule_frame(c, prog):
    R = "C10.frame"
    c.rule(R, "inside rbx_dom_weak nothing writes name / class of an instance; properties are written only by inserting the literal key `UniqueId` (collision repair, C12) and by assigning Variant::Ref values through values_mut (Ref rewriting on clones, C11); the one struct-literal Instance is built from all five builder fields; insert returns the root builder's referent")
    muts = U.all_mutations(prog, [U.F_PROPS, U.F_NAME, U.F_CLASS])
    seen = set()
    for field, sites in sorted(muts.items()):
        for fn, cls, m in sites:
            if not fn.startswith("rbx_dom_weak::") and not fn.startswith("<rbx_dom_weak::"):
                continue     # clients own these public fields (documented); C12 checks the readers
            inst = f"{field}|{fn}|{cls}"
            f = prog.fns.get(fn)
            ok = False
            if field == U.F_PROPS and cls == "structural:insert" and f is not None and f.body is not None:
                # every properties.insert in this function has the literal key "UniqueId"
                ins = [x for x in core.walk_fn(f) if x.get("k") == "MethodCall" and x["m"] == "insert" and "properties" in core.place_root(x["recv"])[1]]
                ok = bool(ins) and all([l["lit"].get("v") for l in core.walk(x["args"][0]) if l.get("k") == "Lit"] == ["UniqueId"] for x in ins)
            elif field == U.F_PROPS and cls == "element:values_mut" and f is not None and f.body is not None:
                # values reached through values_mut are only ever assigned Variant::Ref(..)
                asg = [x for x in core.walk_fn(f) if x.get("k") == "Assign"]
                # ... either the whole value (`*v = Variant::Ref(r)`) or just the payload through the `&mut Ref` the
                # pattern `Variant::Ref(slot)` hands out (`*slot = r`)
                def ref_only(x):
                    r = core.strip(x["r"])
                    if r.get("k") == "Call" and r["f"].get("def") == "rbx_types::variant::Variant::Ref":
                        return True
                    return (x["l"].get("ty") or "") == "rbx_types::referent::Ref"
                ok = bool(asg) and all(ref_only(x) for x in asg)
            if ok:
                seen.add((field, cls))
                c.ok(R, inst)
            else:
                c.violation(R, f"{field}|{fn}|{cls}", f"{fn} mutates {field} ({cls}); operations must leave name/class/properties of every instance untouched (allowed: inserting the key `UniqueId`, assigning Variant::Ref through values_mut)", m["sp"], instance=inst)
    for key in ((U.F_PROPS, "structural:insert"), (U.F_PROPS, "element:values_mut")):
        if key not in seen:
            c.violation(R, f"anchor|{key[0]}|{key[1]}", f"confirmed site disappeared: no {key[1]} on {key[0]} inside rbx_dom_weak (collision repair / Ref rewriting gone)", "")
    # what `insert` stores, read off the symbolic events of the public function (private helpers inlined by sa.sym):
    # every inner_insert(key, Instance{..}) takes key / referent / name / class / properties from one and the same
    # builder B, parent from outside B, an empty children list; and B's children are enqueued as (B.referent, child)
    from sa import sym, wire
    ins = prog.fn(DOM + "WeakDom::insert")

    def sink(name):
        def h(I, n, path, arg_nodes, env):
            args = [I.eval(a, env) for a in arg_nodes]
            if name == "extend" and len(args) == 2 and isinstance(args[1], tuple) and args[1] and args[1][0] in ("stream", "vec"):
                # `queue.extend(items.map(f))` is the loop `for x in items { queue.push_back(f(x)) }`
                try:
                    st = I.to_stream(args[1])
                    I.loop_stack.append(st[1])
                    try:
                        el = I.stream_elem(st)
                    finally:
                        I.loop_stack.pop()
                    I.emit(("rep", st[1], [("sink", "push_back", ("tup", (args[0], el)), core.loc(n))], core.loc(n)))
                    return sym.UNIT
                except sym.Unsupported:
                    pass
            I.emit(("sink", name, ("tup", tuple(args)), core.loc(n)))
            return sym.UNIT
        return h
    import re as _re
    prims = [(_re.compile(r"HashMap::<K, V, S(, A)?>::insert$|AHashMap::<K, V, S>::insert$"), sink("map_insert")), (_re.compile(r"VecDeque::<T, A>::push_back$"), sink("push_back")),
             (_re.compile(r"VecDeque::<T, A>::extend$|as core::iter::traits::collect::Extend<.*>>::extend$"), sink("extend")),
             (_re.compile(r"alloc::vec::Vec::<T, A>::push$"), sink("vec_push"))]
    problems = []
    n_store = n_enq = 0
    try:
        env = {prm["lid"]: ("in", prm["name"]) for prm in ins.params}
        I, val, ex = wire.run_region(prog, ins.body, env, prims, depth=6)

        def contains(t, sub):
            if t == sub:
                return True
            if isinstance(t, (tuple, list)):
                return any(contains(x, sub) for x in t)
            return False
        stores, enq = [], []

        def walk(evs, reps):
            for e in evs:
                if e[0] == "alt":
                    for alt in e[1]:
                        walk(alt[1], reps)
                elif e[0] == "rep":
                    walk(e[2], reps + [e[1]])
                elif e[0] == "sink":
                    a = e[2][1]
                    if e[1] == "map_insert" and len(a) == 3 and a[2][0] == "st" and a[2][1] == U.INST:
                        stores.append((a[1], dict(a[2][2])))
                    elif e[1] == "push_back" and len(a) == 2 and a[1][0] == "tup" and len(a[1][1]) == 2:
                        enq.append((a[1][1], list(reps)))
        walk(I.events, [])
        builders = []
        for key, f in stores:
            n_store += 1
            if not (key[0] == "fld" and key[2] == "referent"):
                problems.append(("referent", f"the instance is stored under `{sym.term_str(key, 3)}`, not under its builder's referent"))
                continue
            B = key[1]
            builders.append(B)
            for fld_ in ("referent", "name", "class"):
                if f.get(fld_) != sym.fld(B, fld_):
                    problems.append((fld_, f"Instance.{fld_} is built from `{sym.term_str(f.get(fld_), 3)}`, expected the same builder's `{fld_}`"))
            pr = f.get("properties")
            if pr is None or not contains(pr, sym.fld(B, "properties")):
                problems.append(("properties", f"Instance.properties is built from `{sym.term_str(pr, 3)}`, expected the same builder's `properties`"))
            par = f.get("parent")
            if par is None or contains(par, B) and par != B:
                problems.append(("parent", f"Instance.parent is built from `{sym.term_str(par, 3)}`, expected the parent handed in for that builder"))
            ch = f.get("children")
            if not (ch is not None and ch[0] == "vec" and not ch[1]):
                problems.append(("children", f"Instance.children starts as `{sym.term_str(ch, 3)}`, expected an empty list (children are linked when they are inserted)"))
        for (pair, reps) in enq:
            par, child = pair
            for B in builders:
                if par == sym.fld(B, "referent") and child == ("elem", sym.fld(B, "children")) and any(sym.norm_dom(d) == sym.norm_dom(("iter", sym.fld(B, "children"))) for d in reps):
                    n_enq += 1
        if n_store == 0:
            problems.append(("source", "no instance is stored by WeakDom::insert"))
        if n_enq == 0:
            problems.append(("children-enqueued", "no loop enqueues (builder.referent, child) for each of the builder's children"))
    except (sym.Unsupported, core.AnalysisError) as e:
        problems.append(("source", f"WeakDom::insert is outside the symbolic model: {e}"))
    # duplicate keys of the builder's property list: the LAST entry wins (what `collect()` into a map does, and what the
    # binary reader relies on when it pushes a migrated value first and the explicit one later)
    firstwins = []
    for f2 in prog.lib_fns():
        if f2.body is None or f2.crate != "rbx_dom_weak" or not (f2.path == ins.path or (f2.d.get("root") or "") == ins.path or f2.path.startswith(ins.path + "::")):
            continue
        for x in core.walk_fn(f2):
            if x.get("k") == "MethodCall" and x["m"] in ("or_insert", "or_insert_with", "or_default", "try_insert") and "variant::Variant" in ((x.get("ty") or "") + (core.strip(x["recv"]).get("ty") or "")):
                firstwins.append(x)
    if firstwins:
        problems.append(("properties", "the property map is filled with `entry(..).or_insert(..)`: of two entries with the same key in the builder's list the FIRST is kept, where collecting the list keeps the last (the binary reader pushes a migrated legacy value and, later, the explicit value under the same name)"))
    seen_p = set()
    for kind in ("source", "referent", "name", "class", "properties", "parent", "children", "children-enqueued"):
        msgs = [m for k2, m in problems if k2 == kind]
        inst = f"build:{kind}"
        if msgs:
            key = {"children-enqueued": "build|children"}.get(kind, f"build|{kind}")
            if key not in seen_p:
                seen_p.add(key)
                c.violation(R, key, f"WeakDom::insert: {msgs[0]}", ins.sp, instance=inst)
        else:
            c.ok(R, inst)
    # return value = referent captured from the root builder
    ins = prog.fn(DOM + "WeakDom::insert")
    tail = core.strip(ins.body["b"].get("expr", {}))
    ok = False
    bparams = [prm.get("name") for prm in ins.params if "InstanceBuilder" in (prm.get("ty") or "")]
    if tail.get("res") == "local":
        for st in core.walk_lets(ins.body):
            if st["pat"].get("lid") == tail["lid"] and "init" in st:
                r = core.place_root(st["init"])
                if r[0] in bparams and r[1] == ["referent"]:
                    ok = True
    if ok:
        c.ok(R, "insert:returns-root-referent")
    else:
        c.violation(R, "insert|return", "insert does not return root_builder.referent", ins.sp, instance="insert:returns-root-referent")


def hashmap_owner_param(fn, t):
    """MIR local index of the API parameter whose `instances` map a HashMap call operates on"""
    r = U.local_root(fn, t["args"][0], depth=16) if t.get("args") else None
    if r is None:
        return None
    l, proj = r
    return l if U.F_INSTANCES in proj else None


def rule_conserve(c, prog):
    R = "C10.conserve"
    c.rule(R, "in transfer (private helpers inlined) every removal from the source's instance map is followed, on every path to the normal return, by an insertion into the destination's map under the same key (conservation of the combined instance set)")
    fn = U.api_fns(prog)[DOM + "WeakDom::transfer"]
    cfg = D.CFG(fn)
    rem = sorted(U.mutation_blocks(fn, U.F_INSTANCES, r"::remove$"))
    ins = sorted(U.mutation_blocks(fn, U.F_INSTANCES, r"::insert$"))
    c.floor(R, len(rem), 2, "instance-map removals in transfer")
    argc = fn.mir.get("argc") or 0
    params = {i: fn.mir["locals"][i] for i in range(1, argc + 1)}
    wd = [i for i, ty in params.items() if "WeakDom" in ty]
    if len(wd) != 2:
        raise core.AnchorMissing(f"transfer: expected two WeakDom parameters, found {params}")
    self_p, dest_p = wd[0], wd[1]
    for k, b in enumerate(rem):
        t = cfg.blocks[b]["term"]
        inst = f"conserve:remove{k + 1}"
        owner = hashmap_owner_param(fn, t)
        if owner != self_p:
            c.violation(R, f"recv|remove|{owner}", f"transfer removes from the instance map of parameter #{owner}, expected the source (`self`)", t.get("sp", ""), instance=inst)
            continue
        good_ins = {i for i in ins if hashmap_owner_param(fn, cfg.blocks[i]["term"]) == dest_p}
        starts = t.get("targets", [])
        if good_ins and all(cfg.must_pass(s, good_ins, cfg.returns) for s in starts):
            c.ok(R, inst)
        else:
            c.violation(R, f"conserve|{inst}", "transfer: an instance removed from the source is not re-inserted into the destination on some path (instance lost)", t.get("sp", ""), instance=inst)
    for i in ins:
        t = cfg.blocks[i]["term"]
        owner = hashmap_owner_param(fn, t)
        inst = "recv:insert"
        if owner == dest_p:
            c.ok(R, inst)
        else:
            c.violation(R, f"recv|insert|{owner}", f"transfer inserts into the instance map of parameter #{owner}, expected the destination", t.get("sp", ""), instance=inst)
    # same key: the instance re-inserted into the destination is the one returned by a removal, under that removal's key
    hfn = prog.fn(DOM + "WeakDom::transfer")
    lets = {st["pat"].get("lid"): st["init"] for st in core.walk_lets(hfn.body) if "init" in st and st["pat"].get("k") == "Binding"}
    n_ins = 0
    for n in core.walk_fn(hfn):
        if n.get("k") == "MethodCall" and n["m"] in ("inner_insert",) and len(n["args"]) == 2:
            n_ins += 1
            klid = core.place_root_lid(n["args"][0])[0]
            vlid = core.strip(n["args"][1]).get("lid")
            src = core.strip(lets.get(vlid, {})) if vlid in lets else {}
            rk = core.place_root_lid(src["args"][0])[0] if src.get("k") == "MethodCall" and src.get("m") == "inner_remove" and src.get("args") else None
            if klid is not None and klid == rk:
                c.ok(R, "key:inner_insert")
            else:
                c.violation(R, f"key|inner_insert|{core.fingerprint(n['args'][0], 2)}", f"transfer re-inserts an instance under key `{core.fingerprint(n['args'][0], 2)}`, which is not the referent it was removed under", core.loc(n), instance="key:inner_insert")
    if n_ins == 0:
        c.ok(R, "key:inner_insert")    # no inner_insert calls by that name: the MIR rule above carries the clause


def rule_builder(c, prog, R="C10.builder"):
    """InstanceBuilder: the by-value `with_x` and the in-place `add_x` / `set_x` have the same effect"""
    c.rule(R, "InstanceBuilder: each consuming method `with_x(self, ..) -> Self` leaves the builder in the state its in-place sibling `add_x` / `set_x(&mut self, ..)` leaves it in (both evaluated symbolically on a builder that already holds properties and children): in particular `with_children` / `with_properties` append to what is there, they do not replace it")
    from sa import sym, wire
    IB = "rbx_dom_weak::instance::InstanceBuilder"
    adt = prog.adts.get(IB)
    if adt is None:
        raise core.AnchorMissing("InstanceBuilder not found")
    fields = [(f["name"], f["ty"]) for f in adt["variants"][0]["fields"]]

    def self_term():
        out = []
        for n, ty in fields:
            if ty.startswith("alloc::vec::Vec<"):
                out.append((n, ("vec", (("seg", ("dom", "old:" + n), ("in", "old:" + n), None),))))
            else:
                out.append((n, ("fld", ("in", "self"), n)))
        return ("st", IB, tuple(out))

    def final_state(f):
        env = {f.params[0]["lid"]: self_term()}
        for i, prm in enumerate(f.params[1:]):
            for b in core.walk(prm):
                if b.get("k") == "Binding":
                    env[b["lid"]] = ("in", f"arg{i}")
        _, val, _ = wire.run_region(prog, f.body, env, [], depth=4)
        byval = not (f.params[0].get("ty") or "").startswith("&")
        return val if byval else env[f.params[0]["lid"]]
    meths = {f.path.rsplit("::", 1)[-1]: f for f in prog.lib_fns() if f.path.startswith(IB + "::") and f.body is not None and f.params}
    n = 0
    for name, f in sorted(meths.items()):
        m = re.match(r"^with_(\w+)$", name)
        if not m:
            continue
        sib = next((meths[p + m.group(1)] for p in ("add_", "set_") if p + m.group(1) in meths), None)
        if sib is None or len(sib.params) != len(f.params):
            continue
        n += 1
        inst = f"builder:{name}~{sib.path.rsplit('::', 1)[-1]}"
        try:
            a, b = final_state(f), final_state(sib)
        except sym.Unsupported as e:
            c.not_decided.append(f"{name}: outside the symbolic model ({e})")
            continue
        if a == b:
            c.ok(R, inst)
        else:
            diff = [fn_ for (fn_, x), (_, y) in zip(a[2], b[2]) if x != y] if a[0] == b[0] == "st" else ["(result)"]
            c.violation(R, f"differs|{name}|{','.join(diff)}", f"InstanceBuilder::{name} and {sib.path.rsplit('::', 1)[-1]} leave `{', '.join(diff)}` in different states when the builder already holds entries: one of them replaces what the other appends to, so a builder assembled with the consuming method loses the children / properties added before the call", f.sp, instance=inst)
    c.floor(R, n, 3, "with_/add_ sibling pairs of InstanceBuilder")


def run(c, prog):
    from . import C09 as _C09
    _C09.rule_acyc(core.Alias(c, "C10"), prog)
    _C09.rule_guard(core.Alias(c, "C10"), prog, constructors=False)     # `adds the built subtree ... all instances not named keep ...`: not when the stored instance replaces a live one or is filed under null     # a move re-parents exactly one subtree: moving it under its own descendant detaches it instead
    rule_builder(c, prog)
    rule_order(c, prog)
    rule_frame(c, prog)
    rule_conserve(c, prog)
    from . import C12, C09
    C09.rule_link(core.Alias(c, "C10"), prog)    # link / unlink pairing and ordering are also what `exactly its documented effect` needs
    C12.rule_book(core.Alias(c, "C10"), prog, reader_rule=False)    # membership changes only through inner_insert/inner_remove: nothing else adds or drops instances or ids
    c.not_decided += ["comparison with a reference model after every step of every history (a run)"]
