"""C10 — each WeakDom operation has exactly its documented effect.
C10.order (ordered containers touched only by order-preserving / FIFO operations), C10.frame (no unrelated
field writes), C10.conserve (transfer: every inner_remove is followed by the destination's inner_insert)."""
import re

from sa import core, discipline as D
from . import domutil as U
from .domutil import DOM

CHILDREN_OK = {"push": "append", "retain": "order-preserving removal", "retain_mut": "order-preserving removal", "extend": "append many",
               "extend_from_slice": "append many", "reserve": "capacity"}
FIFO_OK = {"new", "with_capacity", "push_back", "pop_front", "extend", "default", "from", "len", "is_empty", "reserve", "iter"}
# public operations whose work-list order is unobservable (every other public function using a VecDeque is FIFO-strict)
UNORDERED_API = {DOM + "WeakDom::destroy": "removal order is unobservable", DOM + "WeakDom::transfer": "move order is unobservable (children lists are moved verbatim)"}
VECDEQUE_RX = r"alloc::collections::vec_deque::VecDeque::<T, A>::\w+$|VecDeque<T, A> as core::iter::traits::collect::Extend"


def rule_order(c, prog):
    R = "C10.order"
    c.rule(R, "Instance.children is mutated only by order-preserving operations (push/retain/extend); the work queues of every public function of rbx_dom_weak::dom (private helpers inlined) are strict FIFOs (push_back/extend + pop_front), except destroy / transfer whose processing order is unobservable")
    muts = U.all_mutations(prog, [U.F_CHILDREN])
    n = 0
    for fn, cls, m in muts[U.F_CHILDREN]:
        if not m["how"].startswith("call:"):
            if m["how"] == "assign":
                c.violation(R, f"children|{fn}|assign", f"{fn} assigns Instance.children wholesale", m["sp"], instance=f"children|{fn}|assign")
            continue
        meth = m["how"].rsplit("::", 1)[-1]
        n += 1
        inst = f"children|{fn}|{meth}"
        if meth in CHILDREN_OK:
            c.ok(R, inst)
        elif meth == "insert":
            c.violation(R, f"children|{fn}|insert", f"{fn} calls children.insert(i, _): only appending keeps `last child of the new parent`; (insert at children.len() would be benign but cannot be shown here)", m["sp"], instance=inst)
        else:
            c.violation(R, f"children|{fn}|{meth}", f"{fn} calls `{meth}` on an instance's children list — not an order-preserving operation (allowed: {sorted(CHILDREN_OK)}): sibling order of untouched instances may change", m["sp"], instance=inst)
    c.floor(R, n, 2, "children mutation sites")
    nq = 0
    covered = set()
    for path, fn in sorted(U.api_fns(prog).items()):
        covered.add(path)
        covered.update(fn.inlined)
        if path in UNORDERED_API:
            continue
        for i, cal, t in U.calls_in(fn, VECDEQUE_RX):
            meth = "extend" if "Extend" in cal else cal.rsplit("::", 1)[-1]
            nq += 1
            inst = f"queue|{U.short_api(path)}|{meth}"
            if meth in FIFO_OK:
                c.ok(R, inst)
            else:
                c.violation(R, f"queue|{path}|{meth}", f"{path} uses VecDeque::{meth} on a queue whose order is observable (child order of inserted / cloned instances, BFS order of descendants()); only push_back/extend + pop_front keep FIFO order", t.get("sp", ""), instance=inst)
    c.floor(R, nq, 8, "FIFO queue operations")
    # a private function of the crate that uses a VecDeque and is reached from no public function escapes the rule
    for path, fn in sorted(prog.fns.items()):
        if fn.crate != "rbx_dom_weak" or not fn.mir or fn.dk == "Closure" or "::test" in path:
            continue
        if path in covered or (fn.d.get("root") or path) in covered:
            continue
        if U.calls_in(fn, r"VecDeque::<T, A>::(pop_front|pop_back|push_front|push_back)$"):
            c.violation(R, f"queue|{path}|unclassified", f"{path} uses a VecDeque work queue but is not reached from a public function of rbx_dom_weak::dom: its queue discipline is unchecked", fn.sp)


def rule_frame(c, prog):
    R = "C10.frame"
    c.rule(R, "inside rbx_dom_weak nothing writes name / class of an instance; properties are written only by inserting the literal key `UniqueId` (collision repair, C12) and by assigning Variant::Ref values through values_mut (Ref rewriting on clones, C11); the one struct-literal Instance is built from all five builder fields; insert returns the root builder's referent")
    muts = U.all_mutations(prog, [U.F_PROPS, U.F_NAME, U.F_CLASS])
    seen = set()
    for field, sites in sorted(muts.items()):
        for fn, cls, m in sites:
            if not fn.startswith("rbx_dom_weak::") and not fn.startswith("<rbx_dom_weak::"):
                continue     # clients own these public fields (documented); C12 checks the readers
            inst = f"{field}|{fn}|{cls}"
            f = prog.fns.get(fn)
            ok = False
            if field == U.F_PROPS and cls == "structural:insert" and f is not None and f.body is not None:
                # every properties.insert in this function has the literal key "UniqueId"
                ins = [x for x in core.walk_fn(f) if x.get("k") == "MethodCall" and x["m"] == "insert" and "properties" in core.place_root(x["recv"])[1]]
                ok = bool(ins) and all([l["lit"].get("v") for l in core.walk(x["args"][0]) if l.get("k") == "Lit"] == ["UniqueId"] for x in ins)
            elif field == U.F_PROPS and cls == "element:values_mut" and f is not None and f.body is not None:
                # values reached through values_mut are only ever assigned Variant::Ref(..)
                asg = [x for x in core.walk_fn(f) if x.get("k") == "Assign"]
                ok = bool(asg) and all(core.strip(x["r"]).get("k") == "Call" and core.strip(x["r"])["f"].get("def") == "rbx_types::variant::Variant::Ref" for x in asg)
            if ok:
                seen.add((field, cls))
                c.ok(R, inst)
            else:
                c.violation(R, f"{field}|{fn}|{cls}", f"{fn} mutates {field} ({cls}); operations must leave name/class/properties of every instance untouched (allowed: inserting the key `UniqueId`, assigning Variant::Ref through values_mut)", m["sp"], instance=inst)
    for key in ((U.F_PROPS, "structural:insert"), (U.F_PROPS, "element:values_mut")):
        if key not in seen:
            c.violation(R, f"anchor|{key[0]}|{key[1]}", f"confirmed site disappeared: no {key[1]} on {key[0]} inside rbx_dom_weak (collision repair / Ref rewriting gone)", "")
    # builder field coverage: the single struct-literal Instance of the module
    lits = []
    for path, fn in sorted(prog.fns.items()):
        if fn.crate == "rbx_dom_weak" and fn.body is not None and fn.dk != "Closure" and "::test" not in path and (path.startswith(DOM)):
            for n in core.walk_fn(fn):
                if n.get("k") == "Struct" and n.get("def") == U.INST:
                    lits.append((fn, n))
    if len(lits) != 1:
        raise core.AnchorMissing(f"rbx_dom_weak::dom: expected exactly one struct-literal Instance, found {len(lits)}")
    fn, lit = lits[0]
    origins = core.binding_origins(fn)
    plids = core.param_lids(fn)
    b_lids = [lid for nm, (lid, ty) in plids.items() if (ty or "").lstrip("&").replace("mut ", "").strip() == "rbx_dom_weak::instance::InstanceBuilder"]
    r_lids = [lid for nm, (lid, ty) in plids.items() if (ty or "").endswith("referent::Ref")]
    if len(b_lids) != 1:
        raise core.AnchorMissing(f"the function building the Instance ({fn.path}) does not take exactly one InstanceBuilder")
    blid = b_lids[0]

    def clean(path):
        return [p for p in path if not p.startswith(".") and p != "?"]
    src = {}
    for f in lit["fields"]:
        lid, path = core.resolve_place(f["e"], origins)
        src[f["f"]] = (lid, tuple(clean(path)))
    c.ok(R, "build:source")
    for k in ("referent", "name", "class", "properties"):
        inst = f"build:{k}"
        if src.get(k) == (blid, (k,)):
            c.ok(R, inst)
        else:
            c.violation(R, f"build|{k}", f"insert builds Instance.{k} from {src.get(k)}, expected the builder's `{k}`", core.loc(lit), instance=inst)
    # parent: a Ref parameter of the same function (not a field of the builder)
    if src.get("parent", (None, None))[0] in r_lids and src["parent"][1] == ():
        c.ok(R, "build:parent")
    else:
        c.violation(R, "build|parent", f"insert builds Instance.parent from {src.get('parent')}, expected the parent Ref parameter", core.loc(lit), instance="build:parent")
    # children enqueued from builder.children with the new instance as parent

    def is_builder_field(e, field):
        lid, path = core.resolve_place(e, origins)
        return lid == blid and clean(path)[:1] == [field]
    okq = src_ok = False
    for n in core.walk_fn(fn):
        fl = core.as_for(n)
        if fl is not None and n.get("k") != "DropTemps" and is_builder_field(fl[1], "children"):
            child_lids = set()
            stack = [fl[0]]
            while stack:
                x = stack.pop()
                if isinstance(x, dict):
                    if x.get("k") == "Binding":
                        child_lids.add(x["lid"])
                    stack.extend(v for v in x.values() if isinstance(v, (dict, list)))
                elif isinstance(x, list):
                    stack.extend(x)
            for m in core.walk(fl[2]):
                if m.get("k") == "MethodCall" and m["m"] in ("push_back",) and m["args"]:
                    a = core.strip(m["args"][0])
                    if a.get("k") == "Tup" and len(a["args"]) == 2 and is_builder_field(a["args"][0], "referent") and core.strip(a["args"][1]).get("lid") in child_lids:
                        okq = src_ok = True
        if n.get("k") == "MethodCall" and n["m"] == "extend" and n["args"] and is_builder_field(n["args"][0], "children"):
            a = core.strip(n["args"][0])
            if a.get("k") == "MethodCall" and a["m"] == "map" and core.strip(a["args"][0]).get("k") == "Closure":
                clo = core.strip(a["args"][0])
                body = core.strip(clo["body"])
                while body.get("k") == "Block" and not body["b"]["stmts"] and "expr" in body["b"]:
                    body = core.strip(body["b"]["expr"])
                if body.get("k") == "Tup" and len(body["args"]) == 2 and is_builder_field(body["args"][0], "referent"):
                    okq = src_ok = True
    if okq and src_ok:
        c.ok(R, "build:children-enqueued")
    else:
        c.violation(R, "build|children", "insert does not enqueue (builder.referent, child) for each builder child", fn.sp, instance="build:children-enqueued")
    # return value = referent captured from the root builder
    ins = prog.fn(DOM + "WeakDom::insert")
    tail = core.strip(ins.body["b"].get("expr", {}))
    ok = False
    bparams = [prm.get("name") for prm in ins.params if "InstanceBuilder" in (prm.get("ty") or "")]
    if tail.get("res") == "local":
        for st in core.walk_lets(ins.body):
            if st["pat"].get("lid") == tail["lid"] and "init" in st:
                r = core.place_root(st["init"])
                if r[0] in bparams and r[1] == ["referent"]:
                    ok = True
    if ok:
        c.ok(R, "insert:returns-root-referent")
    else:
        c.violation(R, "insert|return", "insert does not return root_builder.referent", ins.sp, instance="insert:returns-root-referent")


def hashmap_owner_param(fn, t):
    """MIR local index of the API parameter whose `instances` map a HashMap call operates on"""
    r = U.local_root(fn, t["args"][0], depth=16) if t.get("args") else None
    if r is None:
        return None
    l, proj = r
    return l if U.F_INSTANCES in proj else None


def rule_conserve(c, prog):
    R = "C10.conserve"
    c.rule(R, "in transfer (private helpers inlined) every removal from the source's instance map is followed, on every path to the normal return, by an insertion into the destination's map under the same key (conservation of the combined instance set)")
    fn = U.api_fns(prog)[DOM + "WeakDom::transfer"]
    cfg = D.CFG(fn)
    rem = sorted(U.mutation_blocks(fn, U.F_INSTANCES, r"::remove$"))
    ins = sorted(U.mutation_blocks(fn, U.F_INSTANCES, r"::insert$"))
    c.floor(R, len(rem), 2, "instance-map removals in transfer")
    argc = fn.mir.get("argc") or 0
    params = {i: fn.mir["locals"][i] for i in range(1, argc + 1)}
    wd = [i for i, ty in params.items() if "WeakDom" in ty]
    if len(wd) != 2:
        raise core.AnchorMissing(f"transfer: expected two WeakDom parameters, found {params}")
    self_p, dest_p = wd[0], wd[1]
    for k, b in enumerate(rem):
        t = cfg.blocks[b]["term"]
        inst = f"conserve:remove{k + 1}"
        owner = hashmap_owner_param(fn, t)
        if owner != self_p:
            c.violation(R, f"recv|remove|{owner}", f"transfer removes from the instance map of parameter #{owner}, expected the source (`self`)", t.get("sp", ""), instance=inst)
            continue
        good_ins = {i for i in ins if hashmap_owner_param(fn, cfg.blocks[i]["term"]) == dest_p}
        starts = t.get("targets", [])
        if good_ins and all(cfg.must_pass(s, good_ins, cfg.returns) for s in starts):
            c.ok(R, inst)
        else:
            c.violation(R, f"conserve|{inst}", "transfer: an instance removed from the source is not re-inserted into the destination on some path (instance lost)", t.get("sp", ""), instance=inst)
    for i in ins:
        t = cfg.blocks[i]["term"]
        owner = hashmap_owner_param(fn, t)
        inst = "recv:insert"
        if owner == dest_p:
            c.ok(R, inst)
        else:
            c.violation(R, f"recv|insert|{owner}", f"transfer inserts into the instance map of parameter #{owner}, expected the destination", t.get("sp", ""), instance=inst)
    # same key: the instance re-inserted into the destination is the one returned by a removal, under that removal's key
    hfn = prog.fn(DOM + "WeakDom::transfer")
    lets = {st["pat"].get("lid"): st["init"] for st in core.walk_lets(hfn.body) if "init" in st and st["pat"].get("k") == "Binding"}
    n_ins = 0
    for n in core.walk_fn(hfn):
        if n.get("k") == "MethodCall" and n["m"] in ("inner_insert",) and len(n["args"]) == 2:
            n_ins += 1
            klid = core.place_root_lid(n["args"][0])[0]
            vlid = core.strip(n["args"][1]).get("lid")
            src = core.strip(lets.get(vlid, {})) if vlid in lets else {}
            rk = core.place_root_lid(src["args"][0])[0] if src.get("k") == "MethodCall" and src.get("m") == "inner_remove" and src.get("args") else None
            if klid is not None and klid == rk:
                c.ok(R, "key:inner_insert")
            else:
                c.violation(R, f"key|inner_insert|{core.fingerprint(n['args'][0], 2)}", f"transfer re-inserts an instance under key `{core.fingerprint(n['args'][0], 2)}`, which is not the referent it was removed under", core.loc(n), instance="key:inner_insert")
    if n_ins == 0:
        c.ok(R, "key:inner_insert")    # no inner_insert calls by that name: the MIR rule above carries the clause


def run(c, prog):
    rule_order(c, prog)
    rule_frame(c, prog)
    rule_conserve(c, prog)
    from . import C12, C09
    C09.rule_link(core.Alias(c, "C10"), prog)    # link / unlink pairing and ordering are also what `exactly its documented effect` needs
    C12.rule_book(core.Alias(c, "C10"), prog, reader_rule=False)    # membership changes only through inner_insert/inner_remove: nothing else adds or drops instances or ids
    c.not_decided += ["comparison with a reference model after every step of every history (a run)"]
