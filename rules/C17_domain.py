"""C17.domain — a value survives its blob / wire form only if the form can spell it.  For the three types whose compact
form has fewer spellings than the Rust type has values, the type has to close the gap itself: reject the values the form
cannot spell where they are constructed, or make equality blind to the difference.  Decided per type from the shape of
the codec and of the constructors:

* Tags — the blob joins the members with NUL and `decode` drops empty pieces (it has to: "a\\0" and "a" are the same
  list), so an empty member and a member containing NUL cannot be spelled.  Every function of the type that takes member
  text from its caller has to test it.
* MaterialColors — the blob always carries all materials, `decode` stores every one of them; a value that stores only
  some (what `new()` / `Default` build) compares unequal to its own decoding unless equality is defined through
  `get_color`.
* Font — the writers spell `cached_face_id: None` as the empty string and the readers read the empty string as None, so
  `Some("")` cannot be spelled; the field is public, nothing can reject it.
"""
import re

from sa import core

TAGS = "rbx_types::tags::Tags"
MC = "rbx_types::material_colors::MaterialColors"
FONT = "rbx_types::font::Font"


def _derived(prog, ty, trait):
    for imp in prog.impls:
        if imp.get("self") == ty and imp.get("trait") == trait:
            return "derive" in (imp.get("x") or "")
    return None


def _nm(f):
    m = re.match(r"^<([\w:]+) as core::convert::From<(.*)>>::from$", f.path)
    if m:
        return f"From<{core.short(m.group(2))}> for {core.short(m.group(1))}"
    return core.short(f.path)


def _inherent_and_from(prog, ty):
    out = []
    for f in prog.lib_fns():
        if f.body is None:
            continue
        if f.path.startswith(ty + "::") or (f.path.startswith("<" + ty + " as core::convert::From<") and f.path.endswith("::from")):
            out.append(f)
    return out


def rule_tags(c, prog, R):
    dec = prog.fn(TAGS + "::decode")
    drops_empty = any(x.get("k") == "MethodCall" and x["m"] in ("filter", "retain", "filter_map") and any(y.get("k") == "MethodCall" and y["m"] == "is_empty" for y in core.walk(x)) for x in core.walk_fn(dec))
    splits_nul = any(x.get("k") == "MethodCall" and x["m"] in ("split", "splitn", "split_terminator") for x in core.walk_fn(dec))
    if not splits_nul:
        raise core.AnchorMissing("Tags::decode does not split its input")
    inst = "Tags:members-the-blob-can-spell"
    takers = []
    for f in _inherent_and_from(prog, TAGS):
        if f.path.endswith("::decode"):
            continue
        if any(re.search(r"\bstr\b|String", p.get("ty") or "") for p in f.params):
            takers.append(f)
    if not takers:
        raise core.AnchorMissing("Tags: no constructor takes member text")
    unchecked = []
    for f in takers:
        tests = [x for x in core.walk_fn(f) if x.get("k") == "MethodCall" and x["m"] in ("is_empty", "contains", "find", "any", "all", "position")]
        if not tests:
            unchecked.append(f)
    c.sample({"rule": R, "tags": {"decode_drops_empty_pieces": drops_empty, "takers": [_nm(f) for f in takers], "unchecked": [_nm(f) for f in unchecked]}})
    if unchecked:
        what = "an empty member and a member containing NUL" if drops_empty else "a member containing NUL"
        c.violation(R, "Tags|members|" + ",".join(sorted(("From" if " as " in f.path else f.path.rsplit("::", 1)[-1]) for f in unchecked)), f"Tags: the blob joins members with NUL{' and decode drops empty pieces' if drops_empty else ''}, so {what} cannot be spelled; {', '.join(_nm(f) for f in unchecked)} store{'s' if len(unchecked) == 1 else ''} the caller's text without testing it: Tags [\"a\", \"\", \"b\"] decodes from its own blob as [\"a\", \"b\"], [\"a\\0b\"] as [\"a\", \"b\"] — and the two file formats store Tags through exactly this blob", unchecked[0].sp, instance=inst)
    else:
        c.ok(R, inst)


def rule_matcolors(c, prog, R):
    inst = "MaterialColors:equality-sees-what-the-blob-carries"
    eq_derived = _derived(prog, MC, "core::cmp::PartialEq")
    if eq_derived is None:
        raise core.AnchorMissing("MaterialColors: no PartialEq impl")
    new = prog.fn(MC + "::new")
    empty_new = any(x.get("k") == "Call" and re.search(r"BTreeMap::<K, V>::new$|HashMap::<K, V>::new$|Default::default$", core.callee(x) or "") for x in core.walk_fn(new)) and not any(core.as_for(x) is not None or (x.get("k") == "MethodCall" and x["m"] in ("insert", "collect", "extend")) for x in core.walk_fn(new))
    dec = prog.fn(MC + "::decode")
    # decode stores an entry per material: an insert inside a loop (or a collect over the material list) with no condition
    stores_all = False
    for n in core.walk_fn(dec):
        fl = core.as_for(n)
        if fl is not None:
            ins = [x for x in core.walk(fl[2]) if x.get("k") == "MethodCall" and x["m"] == "insert"]
            cond = [y for y in core.walk(fl[2]) if y.get("k") in ("If", "Match") and y.get("src") not in ("ForLoopDesugar", "TryDesugar") and any(z in ins for z in core.walk(y))]
            if ins and not cond:
                stores_all = True
        if n.get("k") == "MethodCall" and n["m"] == "collect" and "BTreeMap" in (n.get("ty") or ""):
            stores_all = True
    c.sample({"rule": R, "material_colors": {"eq_derived": eq_derived, "new_is_empty": empty_new, "decode_stores_every_material": stores_all}})
    if eq_derived and empty_new and stores_all:
        c.violation(R, "MaterialColors|sparse", "MaterialColors: new() / Default build an empty map and set_color adds single entries, encode() fills in the default colour for every material that is not set and decode() stores all of them, while == is derived over the map: MaterialColors::decode(&x.encode()) != x for every x that does not set all 21 materials (MaterialColors::new() included), and the value's JSON form grows from {} to 21 entries after a file round trip", dec.sp, instance=inst)
    else:
        c.ok(R, inst)


def rule_font(c, prog, R):
    inst = "Font:cached-face-the-wire-can-spell"
    adt = prog.adts.get(FONT)
    if adt is None:
        raise core.AnchorMissing(FONT)
    fld = [f for f in adt["variants"][0]["fields"] if f["ty"].startswith("core::option::Option<alloc::string::String>")]
    if not fld:
        c.ok(R, inst)     # no optional text in the type: nothing to merge
        return
    name = fld[0]["name"]
    public = fld[0].get("vis") == "Public" or "Public" in str(fld[0].get("vis"))
    # writers that spell None as "": `<font>.cached_face_id.as_deref().unwrap_or_default()` / unwrap_or("")
    merging = []
    for f in prog.lib_fns():
        if f.body is None or f.crate not in ("rbx_binary", "rbx_types", "rbx_xml"):
            continue
        for x in core.walk_fn(f):
            if x.get("k") == "MethodCall" and x["m"] in ("unwrap_or_default", "unwrap_or") and name in core.place_root(x["recv"])[1]:
                if x["m"] == "unwrap_or" and core.lit_value(x["args"][0]) != "":
                    continue
                merging.append((f, x))
    c.sample({"rule": R, "font": {"field": name, "public": public, "writers_spelling_none_as_empty": sorted({core.short(f.path) for f, _x in merging})}})
    if merging and public:
        c.violation(R, f"Font|{name}|" + ",".join(sorted({f.crate for f, _x in merging})), f"Font: {', '.join(sorted({core.short(f.path) for f, _x in merging}))} write{'s' if len({f.path for f, _x in merging}) == 1 else ''} `{name}: None` as the empty string and the readers read the empty string back as None, so `Some(\"\")` — which the public field admits — comes back as None: the value read is != the value written", core.loc(merging[0][1]), instance=inst)
    else:
        c.ok(R, inst)


def run(c, prog, R="C17.domain", which=("tags", "matcolors", "font")):
    c.rule(R, "types whose compact form has fewer spellings than the type has values (Tags: no empty / NUL-containing member; MaterialColors: always all materials; Font: no empty cached face id) close the gap themselves — constructors test what they store, or equality is defined on what the form carries; otherwise decode(encode(x)) != x for the values in the gap")
    if "tags" in which:
        rule_tags(c, prog, R)
    if "matcolors" in which:
        rule_matcolors(c, prog, R)
    if "font" in which:
        rule_font(c, prog, R)
