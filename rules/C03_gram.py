"""C03.gram / C04.gram — each encoder arm's wire grammar (and, by the duality established in C01.arm, each decoder arm's) equals
the layout docs/binary.md gives for that type: primitive kinds (interleaved arrays vs per-value little-endian fields), their order,
and which leaf field each carries."""
import json
import os
import re

from sa import core, sym, shape, wire, spec
from sa.sym import C, fld, payload, term_str, norm_dom
from . import common
from .common import VARIANT
from . import C01_arm


def load_spec():
    with open(os.path.join(core.VERIF, "spec", "binary.json")) as fh:
        return json.load(fh)


def field_path(t, base):
    """dotted path of leaf projections from `base` (through payloads / elem / casts / byte conversions), or None"""
    path = []
    while True:
        if t == base:
            return ".".join(reversed(path))
        k = t[0]
        if k == "fld":
            path.append(t[2])
            t = t[1]
        elif k == "payload":
            t = t[1]
        elif k in ("cast",):
            t = t[2]
        elif k == "app" and len(t[2]) >= 1 and re.search(r"(to_(le|be|ne)_bytes|to_bits|rotate_left|::bits|to_u32|as_u16|as_u8)$", t[1]):
            t = t[2][0]
        elif k == "vec" and len(t[1]) == 1 and t[1][0][0] in ("seg", "one"):
            t = t[1][0][2] if t[1][0][0] == "seg" else t[1][0][1]
        elif k == "elem":
            t = t[1]
        else:
            return None


def flatten(N, evs, assume):
    """[(prim, size, term, in_rep)] choosing alt branches under `assume`"""
    out = []
    for e in evs:
        if e[0] == "W":
            size = e[4]
            prim = e[1]
            if prim == "bytes":
                sz = N.norm(size, {}, assume) if size is not None else None
                prim = f"bytes:{sz[1]}" if sz is not None and sz[0] == "c" else "bytes:n"
            out.append((prim, N.norm(e[2], {}, assume)))
        elif e[0] == "rep":
            inner = flatten(N, e[2], assume)
            if inner:
                out.append(("rep", inner))
        elif e[0] == "alt":
            chosen = None
            for cond, evs2, ex, exval in e[1]:
                truth = shape.decide(N.norm(cond, {}, assume), assume) if cond is not True else True
                if truth is False or ex is not None:
                    continue
                if truth is True:
                    chosen = evs2
                    break
                if chosen is None:
                    chosen = evs2
            if chosen:
                out += flatten(N, chosen, assume)
    return out


def run(c, prog, R="C03.gram"):
    c.rule(R, "each encoder arm's wire grammar equals the layout docs/binary.md gives for the type (transcribed with section anchors in spec/binary.json): kind and order of primitives (interleaved arrays vs per-value fields) and the leaf field each one carries")
    S = load_spec()["types"]
    efn, em, earms = common.binary_encoder_arms(prog)
    prims = C01_arm.binary_prims()
    N = shape.Normaliser(prog, C01_arm.pairs(prog))
    base_v = fld(("elem", ("in", "values")), "1")
    doc = spec.type_ids("binary.md")
    n = 0
    for T, sp in sorted(S.items()):
        if T not in earms:
            c.violation(R, f"missing-arm|{T}", f"no encoder arm for documented type {T}", efn.sp, instance=f"gram:{T}")
            continue
        I = C01_arm.BinInterp(prog, prims=prims, depth=8, opaque=wire.OPAQUE)
        try:
            try:
                I.eval(earms[T]["body"], {})
            except sym.Exit:
                pass
        except sym.Unsupported as e:
            c.violation(R, f"cannot-establish|{T}", f"encoder arm {T}: {e}", core.loc(earms[T]["body"]), instance=f"gram:{T}")
            continue
        X = {"String": "String", "Ref": "Ref"}.get(T, T)
        assume = frozenset({("is", base_v, VARIANT + "::" + X)})
        flat = flatten(N, I.events, assume)
        vbase = payload(base_v, VARIANT + "::" + X, 0)
        n += 1
        inst = f"gram:{T}"
        if "columns" in sp:
            got = [(p, t) for p, t in flat if p != "rep"]
            reps = [x for x in flat if x[0] == "rep"]
            kinds = [p for p, _ in got]
            if reps or kinds != sp["columns"]:
                c.violation(R, f"layout|{T}", f"docs/binary.md ({sp['section']}) stores {T} as the column sequence {sp['columns']}; the encoder emits {kinds}{' plus per-value data' if reps else ''}", core.loc(earms[T]["body"]), instance=inst)
                continue
            if "fields" in sp:
                paths = [field_path(t, vbase) for _, t in got]
                if paths != sp["fields"]:
                    c.violation(R, f"fields|{T}", f"docs/binary.md ({sp['section']}) orders the columns of {T} as {sp['fields']}; the encoder writes {paths}", core.loc(earms[T]["body"]), instance=inst)
                    continue
            c.ok(R, inst)
        else:
            reps = [x for x in flat if x[0] == "rep"]
            others = [x for x in flat if x[0] != "rep"]
            if len(reps) != 1 or others:
                c.violation(R, f"layout|{T}", f"docs/binary.md ({sp['section']}) stores {T} value by value; the encoder emits {[x[0] for x in flat]}", core.loc(earms[T]["body"]), instance=inst)
                continue
            body = reps[0][1]
            kinds = [p for p, _ in body]
            if kinds != sp["per_value"]:
                c.violation(R, f"layout|{T}", f"docs/binary.md ({sp['section']}) lays out one {T} as {sp['per_value']}; the encoder writes {kinds}", core.loc(earms[T]["body"]), instance=inst)
                continue
            wrong_endian = [i for i, (p_, t_) in enumerate(body) if p_ in ("bytes:2", "bytes:4", "bytes:8") and not (t_[0] == "app" and t_[1].endswith("to_le_bytes"))]
            if wrong_endian and T not in ("String",):
                c.violation(R, f"endian|{T}", f"docs/binary.md ({sp['section']}) stores the fields of {T} little-endian; field #{wrong_endian[0] + 1} is written as {term_str(body[wrong_endian[0]][1], 3)}", core.loc(earms[T]["body"]), instance=inst)
                continue
            if "fields" in sp:
                paths = [field_path(t, vbase) for _, t in body]
                if paths != sp["fields"]:
                    c.violation(R, f"fields|{T}", f"docs/binary.md ({sp['section']}) orders the fields of {T} as {sp['fields']}; the encoder writes {paths}", core.loc(earms[T]["body"]), instance=inst)
                    continue
            c.ok(R, inst)
        dname = {"Ref": "Referent", "OptionalCFrame": "OptionalCoordinateFrame"}.get(T, T)
        # the document's convention: integers are little-endian unless the section says otherwise.  write_interleaved_u32_array
        # writes (and read_interleaved_u32_array reads) big-endian words, so a section describing such a column has to say so
        if "columns" in sp and "ilv_u32" in sp["columns"] and dname in doc:
            if re.search(r"big[- ]endian", doc[dname][1], re.I):
                c.ok(R, inst + ":endianness-stated")
            else:
                c.violation(R, f"endian-doc|{T}", f"docs/binary.md ({sp['section']}) describes the column of {T} as an interleaved array of `u32` without saying it is big-endian, while its conventions make every integer little-endian unless noted (Int32, Enum, BrickColor, Int64 are noted); the codec writes and reads big-endian words: an encoder written from the document stores index 1 as 01 00 00 00, which rbx_binary reads as 16777216 and rejects", "docs/binary.md", instance=inst + ":endianness-stated")
        # the document's own field table, when it has one, must have as many leaf fields as the transcription
        if dname in doc and "fields" in sp:
            ft = spec.field_table(doc[dname][1])
            if ft is not None and T not in ("UDim2", "Rect", "Color3uint8") and len(ft) != len(sp["fields"]):
                c.violation(R, f"doc-table|{T}", f"docs/binary.md's field table for {T} has {len(ft)} fields, the transcription {len(sp['fields'])}: spec/binary.json is out of date", "docs/binary.md", instance=inst + ":table")
    # two layouts the generic comparison does not reach (a mixed struct; a byte-composed struct)
    if "Content" in earms:
        I = C01_arm.BinInterp(prog, prims=prims, depth=8, opaque=wire.OPAQUE)
        try:
            try:
                I.eval(earms["Content"]["body"], {})
            except sym.Exit:
                pass
            flat = flatten(N, I.events, frozenset({("is", base_v, VARIANT + "::Content")}))
            first = flat[0][0] if flat else None
            n += 1
            # docs/binary.md: `SourceTypes | Array(Enum)`; Enum = unsigned 32-bit, big-endian, interleaved, NOT transformed
            if first == "ilv_u32":
                c.ok(R, "gram:Content:SourceTypes")
            else:
                c.violation(R, "layout|Content|SourceTypes", f"docs/binary.md (### Content) gives SourceTypes as Array(Enum) — untransformed big-endian u32, interleaved — but the encoder (and, dually, the decoder) uses `{first}`, the zig-zag transformed Int32 array: a decoder written from the document reads 0/2/4 for None/Uri/Object, and a file written from the document is rejected by rbx_binary (BadContentType)", core.loc(earms["Content"]["body"]), instance="gram:Content:SourceTypes")
        except sym.Unsupported as e:
            c.violation(R, "cannot-establish|Content", f"encoder arm Content: {e}", core.loc(earms["Content"]["body"]), instance="gram:Content:SourceTypes")
    if "UniqueId" in earms:
        I = C01_arm.BinInterp(prog, prims=prims, depth=8, opaque=wire.OPAQUE)
        try:
            try:
                I.eval(earms["UniqueId"]["body"], {})
            except sym.Exit:
                pass
            flat = flatten(N, I.events, frozenset({("is", base_v, VARIANT + "::UniqueId")}))
            txt = repr(flat)
            n += 1
            mods = [m_ for m_ in ("rotate_left", "rotate_right", "swap_bytes") if m_ in txt]
            be = "to_be_bytes" in txt
            # docs/binary.md: Index, Time, Random `stored in the order as written above with no modifications`; the document's
            # convention is little-endian unless a section says otherwise
            if not mods and not be:
                c.ok(R, "gram:UniqueId:bytes")
            else:
                c.violation(R, "layout|UniqueId|bytes", f"docs/binary.md (### UniqueId) says Index, Time and Random are stored in that order `with no modifications` (and integers are little-endian unless a section says otherwise); the encoder writes them {'big-endian' if be else 'little-endian'}{' and applies ' + ', '.join(mods) + ' to Random' if mods else ''}: a decoder written from the document recovers other numbers (UniqueId(1,2,3) reads back as (1,2,6) even when it guesses big-endian)", core.loc(earms["UniqueId"]["body"]), instance="gram:UniqueId:bytes")
        except sym.Unsupported as e:
            c.violation(R, "cannot-establish|UniqueId", f"encoder arm UniqueId: {e}", core.loc(earms["UniqueId"]["body"]), instance="gram:UniqueId:bytes")
    c.floor(R, n, 22, "documented layouts compared")


def rule_examples(c, prog, R="C03.gram"):
    """worked examples of docs/binary.md that can be decoded from the document's own prose: the Vector3int16 pair
    (little-endian i16 triples, no interleaving) and the Position array of the two-CFrame example (three interleaved
    arrays of Roblox-format floats).  They are the only test vectors an independent encoder has."""
    import struct
    doc = spec.type_ids("binary.md")
    n = 0
    # --- Vector3int16
    body = doc.get("Vector3int16", (None, ""))[1]
    m = None
    for lead, hx, raw in spec.hex_examples(body):
        triples = [re.fullmatch(r"(-?\d+), (-?\d+), (-?\d+)", sp) for sp in spec.code_spans(lead)]
        triples = [t for t in triples if t]
        if len(raw) == 12 and len(triples) == 2:
            class _M:      # the shape the code below reads
                def __init__(self, g):
                    self.g = g

                def groups(self):
                    return self.g

                def group(self, i):
                    return self.g[i - 1]
            m = _M(tuple(triples[0].groups()) + tuple(triples[1].groups()) + (hx,))
            break
    if m:
        n += 1
        want = [int(x) for x in m.groups()[:6]]
        raw = bytes.fromhex(m.group(7).replace(" ", ""))
        got = list(struct.unpack("<6h", raw)) if len(raw) == 12 else None
        if got == want:
            c.ok(R, "example:Vector3int16")
        else:
            c.violation(R, "example|Vector3int16", f"docs/binary.md, Vector3int16: the example stores `{', '.join(map(str, want[:3]))}` and `{', '.join(map(str, want[3:]))}` as `{m.group(7)}`, but read as the section describes them (little-endian i16, in sequence) those bytes are {got}; the values are `{' '.join(f'{b:02X}' for b in struct.pack('<6h', *want))}`", "docs/binary.md", instance="example:Vector3int16")
    # --- CFrame: the Position array of the two-value example
    body = doc.get("CFrame", (None, ""))[1]
    cfs = re.findall(r"`CFrame\.new\((\d+), (\d+), (\d+)\)", body)
    mv = mp = None
    for lead, hx, raw in spec.hex_examples(body):
        if len(raw) == 24 and re.search(r"[Pp]osition", lead) and len(cfs) >= 2:
            class _V:
                def __init__(self, g):
                    self.g = g

                def groups(self):
                    return self.g

                def group(self, i):
                    return self.g[i - 1]
            mv = _V(tuple(cfs[0]) + tuple(cfs[1]))
            mp = _V((hx,))
            break
    if mv and mp:
        n += 1
        want = [float(x) for x in mv.groups()]
        raw = bytes.fromhex(mp.group(1).replace(" ", ""))
        got = None
        if len(raw) == 24:
            got = [None] * 6
            for axis in range(3):
                plane = raw[axis * 8:(axis + 1) * 8]
                for i in range(2):
                    word = (plane[i] << 24) | (plane[2 + i] << 16) | (plane[4 + i] << 8) | plane[6 + i]      # interleaved, big-endian
                    bits = (word >> 1) | ((word & 1) << 31)                                                       # Roblox float: sign in the low bit
                    got[i * 3 + axis] = struct.unpack(">f", struct.pack(">I", bits))[0]
        if got == want:
            c.ok(R, "example:CFrame-positions")
        else:
            c.violation(R, "example|CFrame-positions", f"docs/binary.md, CFrame: the two-value example gives positions {want[:3]} and {want[3:]}, but its Position array `{mp.group(1)}`, read as three interleaved arrays of Roblox-format floats, holds {got[:3] if got else None} and {got[3:] if got else None}", "docs/binary.md", instance="example:CFrame-positions")
    c.floor(R, n, 2, "worked examples of docs/binary.md decoded from its own prose")


def rule_carrier(c, prog, R="C03.gram"):
    """type id 0x01 carries more than text: the String column writer stores BinaryString-like values (attribute blobs,
    tag lists, material colours, arbitrary byte strings) under it with the byte writer.  A decoder written from the
    document follows what the String section says about the bytes; if that is `UTF-8` without qualification it refuses,
    or cannot represent, files the writer produces for ordinary DOMs."""
    from sa import tables
    efn, em, earms = common.binary_encoder_arms(prog)
    raw = set()
    for n in core.walk(earms["String"]["body"]):
        if n.get("k") == "Match":
            for a in n["arms"]:
                byte_writer = any(x.get("k") == "MethodCall" and x["m"] == "write_binary_string" for x in core.walk(a["body"]))
                for alt in tables.pat_alts(a["pat"]):
                    if alt[0] == "ctor" and byte_writer:
                        raw.add(alt[1].rsplit("::", 1)[-1])
    doc = spec.type_ids("binary.md")
    body = doc.get("String", (None, ""))[1]
    if not body:
        raise core.AnchorMissing("docs/binary.md: String section")
    inst = "carrier:String"
    claims_text = re.search(r"UTF-?8", body) is not None
    qualified = re.search(r"BinaryString|arbitrary|opaque|raw bytes|binary data|not (necessarily|always|guaranteed|required)", body, re.I) is not None
    c.sample({"rule": R, "string_column_byte_variants": sorted(raw), "doc_claims_utf8": claims_text, "doc_qualifies": qualified})
    if raw and claims_text and not qualified:
        c.violation(R, "carrier|String", f"docs/binary.md, String (type id 0x01) says the values are UTF-8 encoded and names no exception; the String column writer stores {', '.join(sorted(raw))} under that id with the byte writer (an attribute blob such as 01 00 00 00 05 00 00 00 'Speed' 06 … f8 3f is not UTF-8): a decoder written from the document rejects, or cannot represent exactly, PROP chunks written for ordinary DOMs", "docs/binary.md", instance=inst)
    else:
        c.ok(R, inst)
