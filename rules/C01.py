"""C01 — binary round trip.  Rules: C01.tbl (tables), C01.rot (rotation ids), C01.alg (scalar codecs),
C01.arm (encoder/decoder arm duality; sa.shape)."""
import re

from sa import core, tables
from . import common
from .common import TYPE_ENUM, VARIANT_TYPE, vname


def try_from_table(c, prog, tf, discr):
    """{wire id: Type variant} accepted by TryFrom<u8>: either a literal `match value { 0x01 => String, .. }`, or a
    search of a constant array of Type values for the one whose discriminant (`ty as u8`) equals the byte"""
    try:
        m, dups, mnode = tables.simple_map(tf)
        lits = {k[1]: vname(v[1]) for k, v in m.items() if k[0] == "lit" and v[0] == "v"}
        if lits:
            for d in dups:
                c.violation("C01.tbl", f"try_from|dup|{d}", f"TryFrom<u8> for Type lists pattern {d} twice (second arm unreachable)", core.loc(mnode))
            return lits
    except core.AnchorMissing:
        pass
    # search form
    val_lid = tf.params[0]["lid"] if tf.params else None
    consts = []
    for n in core.walk_fn(tf):
        if n.get("k") == "Path" and n.get("def") in prog.fns and (prog.fns[n["def"]].dk or "").startswith("Const"):
            body = core.strip(prog.fns[n["def"]].body) if prog.fns[n["def"]].body is not None else {}
            if body.get("k") == "Array":
                vs = [core.strip(a).get("def") for a in body["args"]]
                if vs and all(v and v.startswith(TYPE_ENUM + "::") for v in vs):
                    consts.append([vname(v) for v in vs])
    cmp_ok = False
    for n in core.walk_fn(tf):
        if n.get("k") == "Binary" and n["op"] == "==":
            sides = [core.strip(n["l"]), core.strip(n["r"])]
            cast = [x for x in sides if x.get("k") == "Cast" and x.get("ty") == "u8" and core.strip(x["e"]).get("ty", "").endswith("types::Type")]
            val = [x for x in sides if x.get("k") == "Path" and x.get("lid") == val_lid]
            if cast and val:
                cmp_ok = True
    if len(consts) == 1 and cmp_ok:
        out = {}
        for v in consts[0]:
            if discr.get(v) in out:
                c.violation("C01.tbl", f"try_from|dup|{v}", f"the Type table searched by TryFrom<u8> lists two variants with wire id {discr.get(v)}", tf.sp)
            out[discr.get(v)] = v
        return out
    raise core.AnchorMissing("TryFrom<u8> for Type is neither a literal match nor a search of a constant Type table by discriminant")


def rule_tbl(c, prog):
    c.rule("C01.tbl", "type-id tables: Type discriminants <-> TryFrom<u8>; from_rbx_type o to_default_rbx_type = id; README-implemented types have a wire type; decoder arm exhaustiveness behind the wildcard; fallback_default_value coverage")
    adt = prog.adt(TYPE_ENUM)
    discr = tables.enum_discriminants(adt)
    c.floor("C01.tbl", len(discr), 31, "Type variants")
    # (a) TryFrom<u8>
    tf = prog.fn(f"<{TYPE_ENUM} as core::convert::TryFrom<u8>>::try_from")
    lit2var = try_from_table(c, prog, tf, discr)
    for name, dv in sorted(discr.items()):
        back = lit2var.get(dv)
        if back == name:
            c.ok("C01.tbl", f"try_from:{name}")
        else:
            c.violation("C01.tbl", f"try_from|{name}", f"Type::{name} has wire id {dv:#04x} but TryFrom<u8> maps {dv:#04x} to {back}", tf.sp, instance=f"try_from:{name}")
    for lit, var in sorted(lit2var.items()):
        if discr.get(var) != lit:
            c.violation("C01.tbl", f"try_from|lit{lit}", f"TryFrom<u8> maps {lit:#04x} to Type::{var} whose discriminant is {discr.get(var)}", tf.sp)
    # (b) from_rbx_type / to_default_rbx_type
    frm = prog.fn(f"{TYPE_ENUM}::from_rbx_type")
    tod = prog.fn(f"{TYPE_ENUM}::to_default_rbx_type")
    fm, _, _ = tables.simple_map(frm)
    tm, _, _ = tables.simple_map(tod)
    v2t = {vname(k[1]): vname(v[1]) for k, v in fm.items() if k[0] == "v" and v[0] == "v"}
    t2v = {vname(k[1]): vname(v[1]) for k, v in tm.items() if k[0] == "v" and v[0] == "v"}
    for t in sorted(discr):
        v = t2v.get(t)
        if v is None:
            c.violation("C01.tbl", f"to_default|{t}", f"to_default_rbx_type has no value type for Type::{t}: properties of this wire type that are unknown to the database are dropped on read", tod.sp, instance=f"to_default:{t}")
        elif v2t.get(v) != t:
            c.violation("C01.tbl", f"to_default|{t}", f"from_rbx_type(to_default_rbx_type(Type::{t})) = {v2t.get(v)} (via VariantType::{v}), not Type::{t}: an unknown property would be re-encoded under another wire type", tod.sp, instance=f"to_default:{t}")
        else:
            c.ok("C01.tbl", f"to_default:{t}")
    c.sample({"rule": "C01.tbl", "from_rbx_type": v2t})
    # (c) README
    marks = common.readme_support("rbx_binary")
    alias = {"ProtectedString": "String"}
    for name, mark in sorted(marks.items()):
        if mark != "✔":
            continue
        v = alias.get(name, name)
        if v in v2t:
            c.ok("C01.tbl", f"readme:{name}")
        else:
            c.violation("C01.tbl", f"readme|{name}", f"README marks {name} implemented for rbx_binary but Type::from_rbx_type has no arm for VariantType::{v}", frm.sp, instance=f"readme:{name}")
    # (d) decoder arm exhaustiveness
    dfn, darms = common.binary_decoder_arms(prog)
    c.floor("C01.tbl", len(darms), 31, "decoder outer arms")
    need = set()
    for t in discr:
        if t in t2v:
            need.add((t, t2v[t], "unknown-property path (to_default_rbx_type)"))
    for v, t in v2t.items():
        need.add((t, v, "declared type path (from_rbx_type)"))
    for t, v, why in sorted(need):
        if v in darms.get(t, {}):
            c.ok("C01.tbl", f"decarm:{t}/{v}")
        else:
            c.violation("C01.tbl", f"decarm|{t}|{v}", f"decode_prop_chunk has no arm (Type::{t}, VariantType::{v}) [{why}]: a value the serializer writes under this wire type cannot be read back (falls to the PropTypeMismatch wildcard)", dfn.sp, instance=f"decarm:{t}/{v}")
    # (e) fallback_default_value
    fb = common.find_fn(prog, r"serializer::state::SerializerState.*::fallback_default_value$")
    fbm, _, _ = tables.simple_map(fb)
    have = {vname(k[1]) for k in fbm if k[0] == "v"}
    for v in sorted(v2t):
        if v in have:
            c.ok("C01.tbl", f"fallback:{v}")
        else:
            c.violation("C01.tbl", f"fallback|{v}", f"fallback_default_value has no arm for VariantType::{v} although it has a wire type: a class mixing instances with/without such an unknown property cannot be serialized", fb.sp, instance=f"fallback:{v}")
    # (f) encoder arms: one per Type (rustc enforces exhaustiveness unless a wildcard exists)
    efn, em, earms = common.binary_encoder_arms(prog)
    if "_" in earms:
        c.violation("C01.tbl", "encarm|wildcard", "serialize_properties' match on prop_type has a wildcard arm, so rustc no longer checks that every Type has an encoder arm", core.loc(em))
    for t in sorted(discr):
        if t in earms:
            c.ok("C01.tbl", f"encarm:{t}")
        else:
            c.violation("C01.tbl", f"encarm|{t}", f"no encoder arm for Type::{t}", efn.sp, instance=f"encarm:{t}")


def rule_ref(c, prog):
    R = "C01.ref"
    c.rule(R, "every reference written by the binary serializer goes through the id_to_referent map with the null sentinel -1 as the default for targets outside the written set; every reference read goes through instances_by_ref with Ref::none() as the default")
    n = 0
    for fn in prog.lib_fns():
        if fn.crate != "rbx_binary" or fn.body is None or "serializer::state" not in fn.path:
            continue
        for x in core.walk_fn(fn):
            if x.get("k") == "MethodCall" and x["m"] == "get" and core.place_root(x["recv"]) == ("self", ["id_to_referent"]):
                n += 1
                inst = f"{fn.path}|{core.fingerprint(x['args'][0], 3)}"
                dflt = default_of(fn, x)
                if dflt == -1:
                    c.ok(R, inst)
                else:
                    c.violation(R, f"{fn.path.rsplit('::', 1)[-1]}|{core.fingerprint(x['args'][0], 3)}|default={dflt}", f"{fn.path}: a reference looked up with id_to_referent.get({core.fingerprint(x['args'][0], 3)}) falls back to `{dflt}` instead of the null referent -1: a reference to an instance outside the written set is written as a valid referent (0 = the first instance) and comes back pointing at the wrong instance", core.loc(x), instance=inst)
            if x.get("k") == "Index" and core.place_root(x["l"]) == ("self", ["id_to_referent"]):
                n += 1
                c.ok(R, f"{fn.path}|index")     # indexing: keys come from relevant_instances (same-source, C03.count)
    c.floor(R, n, 4, "id_to_referent lookups")
    dn = 0
    for fn in prog.lib_fns():
        if fn.crate != "rbx_binary" or fn.body is None or "deserializer::state" not in fn.path:
            continue
        for x in core.walk_fn(fn):
            rty = (x.get("recv", {}).get("ty") or "") + (x.get("recv", {}).get("aty") or "") if x.get("k") == "MethodCall" else ""
            if x.get("k") == "MethodCall" and x["m"] == "get" and (core.place_root(x["recv"]) == ("self", ["instances_by_ref"]) or re.search(r"HashMap<i32, rbx_binary::deserializer::state::Instance", rty)):
                dn += 1
                inst = f"{fn.path}|read|{core.fingerprint(x['args'][0], 3)}"
                dflt = default_of(fn, x)
                if dflt == "Ref::none":
                    c.ok(R, inst)
                else:
                    c.violation(R, f"read|{core.fingerprint(x['args'][0], 3)}|default={dflt}", f"{fn.path}: a referent read from the file and missing from instances_by_ref falls back to `{dflt}` instead of Ref::none()", core.loc(x), instance=inst)
    c.floor(R, dn, 1, "instances_by_ref reference lookups")


def default_of(fn, get_node):
    """the value used when `get_node` (an Option-returning lookup) is None: from `if let Some(..) = get {..} else {..}`,
    `match get { Some(..) => .., None => .. }` or `.copied().unwrap_or(d)`"""
    def value_of(els):
        vals = []
        for x in core.walk(els):
            if x.get("k") == "MethodCall" and x["m"] in ("push", "push_back") and x["args"]:
                vals.append(core.lit_value(x["args"][0]))
            if x.get("k") == "Call" and (core.callee(x) or "").endswith("referent::Ref::none"):
                vals.append("Ref::none")
        tail = core.strip(els)
        while tail.get("k") == "Block" and not tail["b"]["stmts"] and "expr" in tail["b"]:
            tail = core.strip(tail["b"]["expr"])
        v = core.lit_value(tail["b"]["expr"]) if tail.get("k") == "Block" and "expr" in tail["b"] else core.lit_value(tail)
        if v is not None:
            vals.append(v)
        return vals[0] if len(vals) == 1 else (vals or "?")

    def is_get(e):
        e = core.strip(e)
        while e.get("k") == "MethodCall" and e["m"] in ("copied", "cloned") and e is not get_node:
            e = core.strip(e["recv"])
        return e is get_node
    for n in core.walk_fn(fn):
        if n.get("k") == "If" and core.strip(n["c"]).get("k") == "LetExpr" and is_get(core.strip(n["c"])["init"]) and "f" in n:
            return value_of(n["f"])
        if n.get("k") == "Match" and n.get("src") in ("Normal", "Postfix") and is_get(n["e"]):
            none_arms = [a for a in n["arms"] if "None" in core.pat_str(a["pat"]) or a["pat"].get("k") == "Wild"]
            if len(none_arms) == 1:
                return value_of(none_arms[0]["body"])
        if n.get("k") == "MethodCall" and n["m"] in ("unwrap_or", "unwrap_or_default", "unwrap_or_else", "map_or"):
            r = core.strip(n["recv"])
            while r.get("k") == "MethodCall" and r["m"] in ("copied", "cloned", "map"):
                r = core.strip(r["recv"])
            if r is get_node:
                if n["m"] == "unwrap_or":
                    v = core.lit_value(n["args"][0])
                    return v if v is not None else core.fingerprint(n["args"][0], 3)
                if n["m"] == "map_or":
                    v = core.lit_value(n["args"][0])
                    return v if v is not None else core.fingerprint(n["args"][0], 3)
                if n["m"] == "unwrap_or_default":
                    return "Default::default() (0)"
                return core.fingerprint(n, 3)
    return "?"


def rule_sstr_index(c, prog, R="C01.sstr"):
    """the SharedString index written into PROP chunks is the string's position in the SSTR chunk"""
    c.rule(R, "binary writer: the ids stored for SharedStrings are the positions of the strings in the list the SSTR chunk is written from; that list is not reordered or edited once the ids have been taken (every mutation of it happens inside the id-assigning pass, before the ids are taken)")
    from sa import flow
    from .C13 import sp_key
    VEC = re.compile(r"^alloc::vec::Vec<rbx_types::shared_string::SharedString>$")
    IDS = re.compile(r"^std::collections::(hash::map::)?HashMap<rbx_types::shared_string::SharedString, u32")

    def peel(ty):
        ty = ty or ""
        while ty.startswith("&"):
            ty = ty[5:] if ty.startswith("&mut ") else ty[1:]
        return ty

    def is_field_of_self(n, rx):
        """the list / the id map: a field of the serializer state, or a `&mut` parameter of a helper it is handed to"""
        n = core.strip(n)
        while n.get("k") in ("AddrOf", "Unary"):
            n = core.strip(n["e"])
        return n.get("k") in ("Field", "Path") and rx.match(peel(n.get("ty") or n.get("aty"))) is not None and (n.get("k") == "Field" or n.get("res") == "local")
    fns = [f for f in prog.lib_fns() if f.body is not None and f.crate == "rbx_binary" and "::serializer::" in f.path]
    READ_ONLY = {"iter", "len", "is_empty", "clone", "contains", "get", "first", "last", "as_slice", "to_vec", "into_iter", "binary_search", "binary_search_by_key", "starts_with", "ends_with", "deref"}
    REORDERING = {"sort", "sort_by", "sort_by_key", "sort_by_cached_key", "sort_unstable", "sort_unstable_by", "sort_unstable_by_key", "reverse", "swap", "swap_remove", "remove",
                  "retain", "retain_mut", "dedup", "dedup_by", "dedup_by_key", "drain", "truncate", "rotate_left", "rotate_right", "rev"}
    # the loop that writes the strings out (its body takes SharedString::data): it walks the list the ids index, in the
    # list's own order — not a copy that was sorted, reversed or thinned on the way
    n_w = 0
    for f in fns:
        lets = {st["pat"]["lid"]: st["init"] for st in core.walk_lets(f.body) if st["pat"].get("k") == "Binding" and st.get("init") is not None}
        for n in core.walk_fn(f):
            if n.get("k") == "DropTemps":
                continue
            fl = core.as_for(n)
            if fl is None or not any(y.get("k") == "MethodCall" and y["m"] == "data" and "shared_string::SharedString" in (core.strip(y["recv"]).get("ty") or "") for y in core.walk(fl[2])):
                continue
            if not any(y.get("k") == "MethodCall" and y["m"].startswith("write_") for y in core.walk(fl[2])):
                continue
            n_w += 1
            inst = f"sstr-list:written in list order by {f.path.rsplit('::', 1)[-1]}"
            it = fl[1]
            how = [y["m"] for y in core.walk(it) if y.get("k") == "MethodCall" and y["m"] in REORDERING]
            roots = [y for y in core.walk(it) if y.get("k") == "Path" and y.get("res") == "local" and y.get("lid") in lets and not is_field_of_self(y, VEC)]
            for r_ in roots:
                init = lets[r_["lid"]]
                if any(is_field_of_self(y, VEC) for y in core.walk(init)):
                    how += [y["m"] for y in core.walk(init) if y.get("k") == "MethodCall" and y["m"] in REORDERING]
                    how += [y["m"] for y in core.walk_fn(f) if y.get("k") == "MethodCall" and y["m"] in REORDERING and core.place_root_lid(y["recv"])[0] == r_["lid"]]
            if how and roots:
                # unless the ids are taken from that very copy (an enumerate() pass over the same local storing into the
                # id map): then copy order is id order
                rl = {r_["lid"] for r_ in roots}
                for n2 in core.walk_fn(f):
                    fl2 = core.as_for(n2) if n2.get("k") != "DropTemps" else None
                    if fl2 is not None and any(y.get("k") == "Path" and y.get("lid") in rl for y in core.walk(fl2[1])) and any(y.get("k") == "MethodCall" and y["m"] == "enumerate" for y in core.walk(fl2[1])) \
                            and any(y.get("k") == "MethodCall" and y["m"] == "insert" and is_field_of_self(y["recv"], IDS) for y in core.walk(fl2[2])):
                        how = []
            if how:
                c.violation(R, f"written-reordered|{how[0]}|{f.path.rsplit('::', 1)[-1]}", f"{f.path} writes the SharedStrings from a copy of the list that went through `{how[0]}`: the SSTR chunk is then in another order than the one the ids stored in PROP chunks were taken from, and instances come back holding another instance's string", core.loc(n), instance=inst)
            else:
                c.ok(R, inst)
    if n_w < 1:
        raise core.AnchorMissing("binary serializer: the loop that writes SharedString::data into the SSTR chunk")
    assigner = None
    loop_node = None
    for f in fns:
        for n in core.walk_fn(f):
            if n.get("k") == "DropTemps":
                continue
            fl = core.as_for(n)
            if fl is None:
                continue
            src_is_list = any(is_field_of_self(y, VEC) for y in core.walk(fl[1]))
            enumerates = any(y.get("k") == "MethodCall" and y["m"] == "enumerate" for y in core.walk(fl[1]))
            stores = any(y.get("k") == "MethodCall" and y["m"] == "insert" and is_field_of_self(y["recv"], IDS) for y in core.walk(fl[2]))
            if src_is_list and enumerates and stores:
                assigner, loop_node = f, n
    if assigner is None:
        # ids taken where the string is discovered: `ids.insert(s, list.len())` next to `list.push(s)` — positions then stay
        # valid only while the list is append-only
        REORDER = {"sort", "sort_by", "sort_by_key", "sort_by_cached_key", "sort_unstable", "sort_unstable_by", "sort_unstable_by_key", "reverse", "swap", "swap_remove", "remove",
                   "retain", "retain_mut", "dedup", "dedup_by", "dedup_by_key", "drain", "truncate", "clear", "rotate_left", "rotate_right", "insert", "pop", "split_off"}
        lets_by_fn = {}
        at_discovery = []
        for f in fns:
            lets = {st["pat"]["lid"]: st["init"] for st in core.walk_lets(f.body) if st["pat"].get("k") == "Binding" and st.get("init") is not None}
            for x in core.walk_fn(f):
                if x.get("k") == "MethodCall" and x["m"] == "insert" and is_field_of_self(x["recv"], IDS) and len(x["args"]) == 2:
                    v = core.strip(x["args"][1])
                    if v.get("k") == "Path" and v.get("res") == "local" and v.get("lid") in lets:
                        v = core.strip(lets[v["lid"]])
                    if any(y.get("k") == "MethodCall" and y["m"] == "len" and is_field_of_self(y["recv"], VEC) for y in core.walk(v)):
                        at_discovery.append((f, x))
        if not at_discovery:
            c.not_decided.append("SharedString id assignment was not recognised (neither an enumerate() pass nor `list.len()` at discovery)")
            return
        bad = []
        for f in fns:
            for x in core.walk_fn(f):
                if x.get("k") == "MethodCall" and is_field_of_self(x["recv"], VEC) and x["m"] in REORDER:
                    bad.append((f, x))
        for f, x in at_discovery:
            c.ok(R, f"sstr-list:id=len() in {f.path.rsplit('::', 1)[-1]}")
        if bad:
            f, x = bad[0]
            c.violation(R, f"reordered|{x['m']}|{f.path.rsplit('::', 1)[-1]}", f"SharedString ids are the list length at the moment a string is discovered, and {f.path} applies `{x['m']}` to that list: the positions the ids were taken from no longer hold, so the indices stored in PROP chunks point at other entries of the SSTR chunk", core.loc(x), instance="sstr-list:append-only")
        else:
            c.ok(R, "sstr-list:append-only")
        return
    g = flow.CallGraph(prog)
    inner = g.reach([assigner.path])
    n_sites = 0
    for f in fns:
        for x in core.walk_fn(f):
            mut = False
            if x.get("k") == "MethodCall" and is_field_of_self(x["recv"], VEC) and x["m"] not in READ_ONLY:
                mut = True
            elif x.get("k") in ("MethodCall", "Call"):
                for a in core.call_args(x):
                    if a.get("k") == "AddrOf" and a.get("mut") and is_field_of_self(a, VEC):
                        mut = True
            elif x.get("k") in ("Assign", "AssignOp") and is_field_of_self(x["l"], VEC) and f.path.rsplit("::", 1)[-1] != "new":
                mut = True
            if not mut:
                continue
            n_sites += 1
            what = x.get("m") or "write"
            inst = f"sstr-list:{what} in {f.path.rsplit('::', 1)[-1]}"
            if f.path == assigner.path:
                if sp_key(x) < sp_key(loop_node):
                    c.ok(R, inst)
                else:
                    c.violation(R, f"after-ids|{what}|{f.path.rsplit('::', 1)[-1]}", f"{f.path} applies `{what}` to the SharedString list after the ids were taken from it: the indices stored in PROP chunks then point at other entries of the SSTR chunk", core.loc(x), instance=inst)
            elif f.path in inner:
                # called from the id-assigning pass; must not be callable after its loop
                late = [y for y in core.walk_fn(assigner) if y.get("k") in ("MethodCall", "Call") and sp_key(y) > sp_key(loop_node) and (core.callee_generic(y) == f.path or f.path in g.reach([core.callee_generic(y)] if core.callee_generic(y) in prog.fns else []))]
                if late:
                    c.violation(R, f"after-ids|{what}|{f.path.rsplit('::', 1)[-1]}", f"{f.path} applies `{what}` to the SharedString list and is called by {assigner.path} after the ids were taken", core.loc(x), instance=inst)
                else:
                    c.ok(R, inst)
            else:
                c.violation(R, f"outside-pass|{what}|{f.path.rsplit('::', 1)[-1]}", f"{f.path} applies `{what}` to the SharedString list but is not part of the pass that assigns the ids ({assigner.path}): when it runs afterwards the SSTR chunk is written in an order the ids already stored for PROP chunks do not describe, and instances come back holding another instance's string", core.loc(x), instance=inst)
    if n_sites < 1:
        raise core.AnchorMissing("no mutation of the SharedString list found in the binary serializer")


def rule_uid(c, prog, R="C01.uid"):
    """default-filled UniqueId columns meet the DOM's uniqueness bookkeeping on read"""
    c.rule(R, "binary writer x DOM insert: a property gained through default filling comes back with the default value. For UniqueId the column default is one constant for every instance that lacks the property, while WeakDom replaces the second occurrence of any id by a freshly generated one; unless the constant is exempt from that replacement (or never reaches insert), the second default-filled instance comes back with a time-based id that differs on every load")
    dom_fns = [f for f in prog.lib_fns() if f.body is not None and f.crate == "rbx_dom_weak"]
    regen = [f for f in dom_fns if any(x.get("k") in ("Call", "MethodCall") and (core.callee(x) or "").endswith("unique_id::UniqueId::now") for x in core.walk_fn(f))]
    if not regen:
        raise core.AnchorMissing("no function of rbx_dom_weak regenerates a UniqueId (UniqueId::now)")

    def mentions_nil(node):
        return any(x.get("k") in ("Call", "MethodCall", "Path") and re.search(r"unique_id::UniqueId::(nil|is_nil)$", (core.callee(x) if x.get("k") != "Path" else x.get("def")) or "") for x in core.walk(node))
    # (1) a constant default exists for UniqueId-typed columns
    fb = [f for f in prog.lib_fns() if f.body is not None and f.crate == "rbx_binary" and "::serializer::" in f.path and f.path.endswith("fallback_default_value")]
    const_default = False
    for f in fb:
        for n in core.walk_fn(f):
            if n.get("k") == "Match":
                for arm in n["arms"]:
                    if "VariantType::UniqueId" in core.pat_str(arm["pat"]) and "None" not in core.fingerprint(arm["body"], 2):
                        const_default = True
    if not fb:
        # defaults may come from elsewhere; without the fallback table this clause has nothing to anchor on
        c.not_decided.append("UniqueId column default: fallback_default_value not found")
        return
    # (2) the regeneration is exempt for the nil id, or (3) the reader filters nil ids before inserting
    exempt_dom = any(mentions_nil(f.body) for f in regen)
    fn, darms = common.binary_decoder_arms(prog)
    arm = darms.get("UniqueId", {}).get("UniqueId")
    exempt_reader = arm is not None and mentions_nil(arm["body"])
    c.sample({"rule": R, "constant_default_for_UniqueId": const_default, "regenerating_functions": [f.path for f in regen], "nil_exempt_in_dom": exempt_dom, "nil_filtered_by_reader": exempt_reader})
    inst = "uniqueid:default-fill-vs-uniqueness"
    if const_default and not exempt_dom and not exempt_reader:
        c.violation(R, "default-fill-collides", f"the binary writer fills the UniqueId column of instances that lack the property with one constant (UniqueId::nil()), and {core.short(regen[0].path)} replaces every second occurrence of an id by UniqueId::now(): of two default-filled instances the second comes back with a time-based id, different on every load — neither the value written nor the default", regen[0].sp, instance=inst)
    else:
        c.ok(R, inst)


CODE_PAIRS = (("rbx_types::font::FontWeight", "as_u16", "from_u16"), ("rbx_types::font::FontStyle", "as_u8", "from_u8"))


def rule_codes(c, prog, R="C01.codes"):
    """enum <-> number tables used by every codec of Font: from(as(v)) == Some(v) for every variant"""
    c.rule(R, "the number tables of FontWeight / FontStyle are mutually inverse: for every variant v, from_uN(v.as_uN()) evaluates (symbolically, both functions) to Some(v); the codec analyses of the binary, attribute and XML Font arms rely on this pair")
    from sa import sym, wire
    for ty, to, frm in CODE_PAIRS:
        adt = prog.adts.get(ty)
        fa, ff = prog.fn(f"{ty}::{to}"), prog.fn(f"{ty}::{frm}")
        if adt is None or not adt["variants"]:
            raise core.AnchorMissing(f"{ty} not found")
        seen = {}
        for v in adt["variants"]:
            vp = f"{ty}::{v['name']}"
            inst = f"{core.short(ty)}::{v['name']}"
            try:
                _, code, _ = wire.run_region(prog, fa.body, {fa.params[0]["lid"]: sym.var(vp)}, [], depth=4)
                _, back, _ = wire.run_region(prog, ff.body, {ff.params[0]["lid"]: code}, [], depth=4)
            except sym.Unsupported as e:
                c.violation(R, f"cannot-evaluate|{inst}", f"{ty}::{to} / {frm} are outside the symbolic model: {e}", fa.sp, instance=inst)
                continue
            if code[0] == "c" and code[1] in seen:
                c.violation(R, f"collision|{inst}", f"{inst} and {seen[code[1]]} are both written as {code[1]}", fa.sp, instance=inst)
            elif back == sym.var(sym.SOME, sym.var(vp)):
                c.ok(R, inst)
                if code[0] == "c":
                    seen[code[1]] = inst
            else:
                c.violation(R, f"not-inverse|{inst}", f"{inst} is written as {sym.term_str(code, 3)} and that number reads back as {sym.term_str(back, 4)}", ff.sp, instance=inst)


def rule_string_family(c, prog, R="C01.tbl"):
    """every variant the String column writer accepts is a variant `from_rbx_type` sends to the String column"""
    efn, em, earms = common.binary_encoder_arms(prog)
    accepted = set()
    for n in core.walk(earms["String"]["body"]):
        if n.get("k") == "Match":
            for a in n["arms"]:
                for alt in tables.pat_alts(a["pat"]):
                    if alt[0] == "ctor":
                        accepted.add(vname(alt[1]))
    frm = prog.fn(f"{TYPE_ENUM}::from_rbx_type")
    fm, _, _ = tables.simple_map(frm)
    to_string = {vname(k[1]) for k, v in fm.items() if k[0] == "v" and vname(v[1] if isinstance(v, tuple) else v) == "String"} if fm else set()
    if not to_string:
        to_string = {vname(k[1]) for k, v in fm.items() if k[0] == "v" and "String" in repr(v)}
    c.floor(R, len(accepted), 4, "variants accepted by the String column writer")
    for v in sorted(accepted):
        inst = f"string-family:{v}"
        if v in to_string:
            c.ok(R, inst)
        else:
            c.violation(R, f"string-family|{v}", f"the String column writer of serialize_properties has an arm for Variant::{v}, but Type::from_rbx_type has no `VariantType::{v} => Type::String`: a property of that type which the database does not know (an unknown class, or a custom database) is refused with UnsupportedPropType although the writer knows how to store it", frm.sp, instance=inst)


def run(c, prog):
    common.rule_configured_db(c, prog, "C01.cfgdb", ("rbx_binary",))
    common.rule_builders(c, prog, "C01.opts", ("rbx_binary",))
    from . import C16 as _C16
    from sa import db as _dbm
    _C16.rule_sername(core.Alias(c, "C01"), prog, _dbm.Database())     # two canonical properties written under one name lose a value
    common.rule_writer_total(c, prog, "C01.total", "binary")
    from . import C17_domain
    C17_domain.run(core.Alias(c, "C01"), prog)     # the binary format stores Tags / MaterialColors through their blobs and Font through the same merged spelling
    rule_codes(c, prog)
    rule_uid(c, prog)
    rule_sstr_index(c, prog)
    rule_tbl(c, prog)
    rule_string_family(c, prog)
    rule_ref(c, prog)
    from . import C01_rot, C01_alg, C01_arm
    C01_rot.run(c, prog)
    C01_alg.run(c, prog)
    C01_arm.run(c, prog)
    c.not_decided += ["forest/PRNT reconstruction for every tree shape", "lz4/zstd round trip (third party)"]
