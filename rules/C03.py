"""C03 — binary output is well-formed per docs/binary.md.
C03.ids (doc type ids vs Type discriminants), C03.frame (header / chunk framing / END / phase order),
C03.count (length prefixes and loops range over the same collection), C03.gram (sa.shape vs spec; see C03_gram)."""
from sa import core, tables, spec
from . import common
from .common import TYPE_ENUM

NAME_MAP = {"Referent": "Ref", "OptionalCoordinateFrame": "OptionalCFrame"}
DOC_ONLY = {"Bytecode": "docs/binary.md: read/written as-is by Roblox only when signed; rbx_binary has no Type variant (README: unimplemented)"}
CODE_ONLY = {"SecurityCapabilities": "present in code (0x21) but not yet documented in docs/binary.md"}


def rule_ids(c, prog):
    R = "C03.ids"
    c.rule(R, "every `**Type ID 0xNN**` of docs/binary.md equals the discriminant of the Type variant of that name (parsed on every run)")
    doc = spec.type_ids("binary.md")
    discr = tables.enum_discriminants(prog.adt(TYPE_ENUM))
    c.floor(R, len(doc), 30, "documented type ids")
    seen = set()
    for name, (tid, _) in sorted(doc.items()):
        v = NAME_MAP.get(name, name)
        if name in DOC_ONLY:
            if v in discr:
                c.violation(R, f"doc-only|{name}", f"{name} is listed as documented-only but Type::{v} exists", "docs/binary.md")
            else:
                c.ok(R, f"doc-only:{name}")
            continue
        if v not in discr:
            c.violation(R, f"missing|{name}", f"docs/binary.md documents {name} (id {tid:#04x}) but enum Type has no variant {v}", "rbx_binary/src/types.rs", instance=f"id:{name}")
        elif discr[v] != tid:
            c.violation(R, f"id|{name}", f"docs/binary.md gives {name} the type id {tid:#04x} but Type::{v} = {discr[v]:#04x}: files written use an id other writers/readers do not expect", "rbx_binary/src/types.rs", instance=f"id:{name}")
        else:
            c.ok(R, f"id:{name}")
        seen.add(v)
    for v, d in sorted(discr.items()):
        if v not in seen:
            if v in CODE_ONLY:
                c.ok(R, f"code-only:{v}")
            else:
                c.violation(R, f"undocumented|{v}", f"Type::{v} ({d:#04x}) has no section in docs/binary.md", "docs/binary.md", instance=f"id:{v}")
    ids = list(discr.values())
    if len(set(ids)) != len(ids):
        c.violation(R, "dup-discr", "two Type variants share a discriminant", "rbx_binary/src/types.rs")
    c.sample({"rule": R, "doc_ids": {k: hex(v[0]) for k, v in sorted(doc.items())}})


def run(c, prog):
    rule_ids(c, prog)
    from . import C03_frame
    C03_frame.run(c, prog)
    # the values clause (`an independent decoder recovers exactly the property values`): what each encoder arm writes is what the
    # documented layout means — shared with C01 (scalar codecs = the document's formulas, arm grammars, rotation ids)
    from . import C01_alg, C01_arm, C01_rot
    a = core.Alias(c, "C03")
    C01_alg.run(a, prog)
    C01_rot.run(a, prog)
    C01_arm.run(a, prog)
    from . import C03_gram
    C03_gram.run(c, prog)
    c.not_decided += ["acceptance by an independent decoder (a run)", "PRNT order / exactly-once for every tree shape", "lz4/zstd length fields vs compressed payload (third party)"]
