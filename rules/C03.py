"""C03 — binary output is well-formed per docs/binary.md.
C03.ids (doc type ids vs Type discriminants), C03.frame (header / chunk framing / END / phase order),
C03.count (length prefixes and loops range over the same collection), C03.gram (sa.shape vs spec; see C03_gram)."""
from sa import core, tables, spec
from . import common
from .common import TYPE_ENUM

NAME_MAP = {"Referent": "Ref", "OptionalCoordinateFrame": "OptionalCFrame"}
DOC_ONLY = {"Bytecode": "docs/binary.md: read/written as-is by Roblox only when signed; rbx_binary has no Type variant (README: unimplemented)"}
CODE_ONLY = {}     # every wire type the code writes must have a section in docs/binary.md


def rule_ids(c, prog):
    R = "C03.ids"
    c.rule(R, "every `**Type ID 0xNN**` of docs/binary.md equals the discriminant of the Type variant of that name (parsed on every run)")
    doc = spec.type_ids("binary.md")
    discr = tables.enum_discriminants(prog.adt(TYPE_ENUM))
    c.floor(R, len(doc), 30, "documented type ids")
    seen = set()
    for name, (tid, _) in sorted(doc.items()):
        v = NAME_MAP.get(name, name)
        if name in DOC_ONLY:
            if v in discr:
                c.violation(R, f"doc-only|{name}", f"{name} is listed as documented-only but Type::{v} exists", "docs/binary.md")
            else:
                c.ok(R, f"doc-only:{name}")
            continue
        if v not in discr:
            c.violation(R, f"missing|{name}", f"docs/binary.md documents {name} (id {tid:#04x}) but enum Type has no variant {v}", "rbx_binary/src/types.rs", instance=f"id:{name}")
        elif discr[v] != tid:
            c.violation(R, f"id|{name}", f"docs/binary.md gives {name} the type id {tid:#04x} but Type::{v} = {discr[v]:#04x}: files written use an id other writers/readers do not expect", "rbx_binary/src/types.rs", instance=f"id:{name}")
        else:
            c.ok(R, f"id:{name}")
        seen.add(v)
    for v, d in sorted(discr.items()):
        if v not in seen:
            if v in CODE_ONLY:
                c.ok(R, f"code-only:{v}")
            else:
                c.violation(R, f"undocumented|{v}", f"Type::{v} ({d:#04x}) has no section in docs/binary.md", "docs/binary.md", instance=f"id:{v}")
    ids = list(discr.values())
    if len(set(ids)) != len(ids):
        c.violation(R, "dup-discr", "two Type variants share a discriminant", "rbx_binary/src/types.rs")
    c.sample({"rule": R, "doc_ids": {k: hex(v[0]) for k, v in sorted(doc.items())}})


def rule_bits(c, prog):
    """bit-field types: the document's worked examples against the flag constants in the code"""
    import re
    R = "C03.bits"
    c.rule(R, "Faces / Axes are written as the raw flag byte; the worked examples of docs/binary.md (named sets and their hex bytes) must be what the flag constants of rbx_types produce for those sets")
    text = spec._read("binary.md")
    for ty, mod, flags in (("Faces", "rbx_types::faces", "FaceFlags"), ("Axes", "rbx_types::axes", "AxisFlags")):
        m = re.search(r"### " + ty + r"\n(.*?)\n### ", text, re.S)
        if not m:
            raise core.AnchorMissing(f"docs/binary.md: section ### {ty} not found")
        sec = m.group(1)
        # flag constants of the code: consts named like the flags with integer values
        bits = {}
        from sa import wire as _w, sym as _s
        for path, f in prog.fns.items():
            if path.startswith(mod + "::" + ty + "::") and path.count("::") == 3 and path.rsplit("::", 1)[-1].isupper() and f.body is not None:
                try:
                    t = _w.WireInterp(prog, prims=[], depth=4).eval(f.body, {})
                except (_s.Unsupported, _s.Exit):
                    continue
                ints = []

                def rec(x):
                    if isinstance(x, tuple) and x:
                        if x[0] == "c" and isinstance(x[1], int) and not isinstance(x[1], bool):
                            ints.append(x[1])
                        for y in x:
                            rec(y)
                rec(t)
                if len(ints) == 1:
                    bits[path.rsplit("::", 1)[-1]] = ints[0]
        if len(bits) < 3:
            raise core.AnchorMissing(f"{mod}: flag constants not found ({bits})")
        # worked examples: bytes preceded by as many named sets (code spans made of flag names only) as there are bytes
        sets, want = [], []
        for lead, hx, raw in spec.hex_examples(sec):
            named = []
            for grp in spec.code_spans(lead):
                toks = re.findall(r"[A-Za-z]+", grp)
                if toks and all(t.upper() in bits for t in toks) and re.fullmatch(r"[A-Za-z, ]+", grp):
                    named.append(toks)
            if named and len(named) == len(raw):
                sets += named
                want += list(raw)
        if not sets:
            raise core.AnchorMissing(f"docs/binary.md: worked example of {ty} not found")
        got = []
        for names in sets:
            v = 0
            for nm in names:
                v |= bits.get(nm.upper(), 0)
            got.append(v)
        c.sample({"rule": R, "type": ty, "flag_bits": bits, "doc_example_sets": sets, "doc_bytes": want, "code_bytes": got})
        inst = f"example:{ty}"
        if got == want:
            c.ok(R, inst)
        else:
            c.violation(R, f"{ty}|doc-example", f"docs/binary.md encodes the {ty} sets {sets} as {[hex(x) for x in want]}; with the flag constants of {mod} ({bits}) rbx_binary writes {[hex(x) for x in got]}: the document's bit order is the reverse of the code's, so an implementer following the document reads e.g. Front where rbx-dom wrote Right", "docs/binary.md", instance=inst)


def run(c, prog):
    from . import C01 as _C01s
    _C01s.rule_sstr_index(core.Alias(c, "C03"), prog)     # the index a PROP chunk stores is the string's position in SSTR: otherwise a decoder recovers another instance's data
    from . import C16 as _C16
    from sa import db as _dbm
    _C16.rule_sername(core.Alias(c, "C03"), prog, _dbm.Database())     # `one PROP chunk per property name per class`: two canonical properties sharing a serialized name give two chunks of that name
    common.rule_configured_db(c, prog, "C03.cfgdb", ("rbx_binary",))
    rule_ids(c, prog)
    rule_bits(c, prog)
    from . import C03_frame
    C03_frame.run(c, prog)
    # the values clause (`an independent decoder recovers exactly the property values`): what each encoder arm writes is what the
    # documented layout means — shared with C01 (scalar codecs = the document's formulas, arm grammars, rotation ids)
    from . import C01_alg, C01_arm, C01_rot
    a = core.Alias(c, "C03")
    C01_alg.run(a, prog)
    C01_rot.run(a, prog)
    C01_arm.run(a, prog)
    from . import C03_gram
    C03_gram.run(c, prog)
    C03_gram.rule_examples(c, prog)
    C03_gram.rule_carrier(c, prog)
    c.not_decided += ["acceptance by an independent decoder (a run)", "PRNT order / exactly-once for every tree shape", "lz4/zstd length fields vs compressed payload (third party)"]
