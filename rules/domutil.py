"""Shared analysis of rbx_dom_weak::dom for C09/C10/C11/C12."""
import re

from sa import core, discipline as D

DOM = "rbx_dom_weak::dom::"
INST = "rbx_dom_weak::instance::Instance"
WD = "rbx_dom_weak::dom::WeakDom"
F_CHILDREN = INST + ".children"
F_PARENT = INST + ".parent"
F_REFERENT = INST + ".referent"
F_PROPS = INST + ".properties"
F_NAME = INST + ".name"
F_CLASS = INST + ".class"
F_INSTANCES = WD + ".instances"
F_UIDS = WD + ".unique_ids"
F_ROOT = WD + ".root_ref"

STRUCTURAL = re.compile(r"::(push|pop|push_back|push_front|pop_back|pop_front|truncate|dedup\w*|sort\w*|reverse|rotate_\w+|swap|resize\w*|fill\w*|insert|remove|remove_entry|clear|drain|retain|extend|entry|take|replace|get_or_insert\w*|try_insert|extract_if|swap_remove|append|split_off)$")
ELEMENT = re.compile(r"::(get_mut|get_many_mut|iter_mut|values_mut|get_disjoint_mut)$")
CAPACITY = re.compile(r"::(reserve|try_reserve|shrink_to_fit|shrink_to)$")


def classify(how):
    if how == "assign":
        return "assign"
    if how.startswith("call:"):
        cal = how[5:]
        if STRUCTURAL.search(cal):
            return "structural:" + cal.rsplit("::", 1)[-1]
        if ELEMENT.search(cal):
            return "element:" + cal.rsplit("::", 1)[-1]
        if CAPACITY.search(cal):
            return "capacity:" + cal.rsplit("::", 1)[-1]
        return "other:" + core.short(cal)
    return how


def all_mutations(prog, fields):
    """{field: [(fn path, class, mutation dict)]} over every workspace function."""
    out = {f: [] for f in fields}
    for fn in prog.fns.values():
        if fn.crate not in core.LIB_CRATES:
            continue
        for m in D.field_mutations(fn):
            if m["field"] in out:
                out[m["field"]].append((fn.path, classify(m["how"]), m))
    return out


def calls_in(fn, regex):
    rx = re.compile(regex)
    return [(i, cal, t) for i, cal, gen, t in D.mir_calls(fn) if cal and rx.search(cal)]


def local_root(fn, op, depth=6):
    """follow a MIR operand back through `&x` / copies to a root (local, field path)"""
    if op.get("k") != "place":
        return None
    l = op["l"]
    proj = D.place_fields(op)
    seen = 0
    while seen < depth:
        seen += 1
        found = False
        for bb in fn.mir["blocks"]:
            for st in bb["stmts"]:
                if st["k"] == "assign" and st["lhs"]["l"] == l and not st["lhs"].get("proj") and st.get("ops"):
                    src = st["ops"][0]
                    if src.get("k") == "place" and (st.get("rk", "").startswith("ref") or st.get("rk") in ("use",)):
                        proj = D.place_fields(src) + proj
                        l = src["l"]
                        found = True
                        break
            if found:
                break
        if not found:
            break
    return l, tuple(proj)


def is_some_false_targets(fn, cfg):
    """blocks reached when `Ref::is_some(x)` is false: [(block, root of x)]"""
    out = []
    for i, cal, t in calls_in(fn, r"rbx_types::referent::Ref::is_some$"):
        dest = t["dest"]["l"]
        for tgt in t.get("targets", []):
            sw = cfg.blocks[tgt]["term"]
            if sw["k"] == "switch" and sw["discr"].get("l") == dest:
                # switchInt(bool): vals ['0'] -> targets[0] is the false edge
                vals = sw.get("vals", [])
                tg = sw.get("targets", [])
                for v, b in zip(vals, tg):
                    if v == "0":
                        out.append((b, local_root(fn, t["args"][0])))
                if vals == ["1"] and len(tg) == 2:
                    out.append((tg[1], local_root(fn, t["args"][0])))
    return out


# ------------------------------------------------------------------ API functions with private helpers inlined
from sa import inline as _inline


def is_private_dom_fn(f):
    return f.crate == "rbx_dom_weak" and f.path.startswith(DOM) and f.dk != "Closure" and not (f.d.get("vis") or "").startswith("Public")


_API_CACHE = {}


def api_fns(prog):
    """{path: InlinedFn} — the public functions of rbx_dom_weak::dom (and trait impl methods there), each with the
    module's private helpers (inner_insert, inner_remove, nested fns, ...) spliced into its MIR CFG."""
    key = id(prog)
    if key in _API_CACHE:
        return _API_CACHE[key]
    out = {}
    for path, f in sorted(prog.fns.items()):
        if f.crate != "rbx_dom_weak" or not f.mir or f.dk == "Closure":
            continue
        if not (path.startswith(DOM) or path.startswith("<" + DOM)):
            continue
        if "::test::" in path or "::tests::" in path:
            continue
        if is_private_dom_fn(f):
            continue
        out[path] = _inline.inline(prog, f, is_private_dom_fn)
    _API_CACHE.clear()
    _API_CACHE[key] = out
    return out


def mutation_blocks(fn, field, op_regex):
    """blocks of fn whose call terminator performs a mutation of `field` matching op_regex (by span identity
    with sa.discipline.field_mutations)"""
    rx = re.compile(op_regex)
    sps = {m["sp"] for m in D.field_mutations(fn) if m["field"] == field and m["how"].startswith("call:") and rx.search(m["how"])}
    return {i for i, cal, gen, t in D.mir_calls(fn) if t.get("sp") in sps and cal and rx.search(cal)}


def short_api(path):
    return path.replace(DOM, "")
