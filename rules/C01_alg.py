import re
"""C01.alg — decode o encode = identity for the scalar codecs of rbx_binary::core, decided exactly in the
GF(2)-affine bit-vector domain (all 2^32 / 2^64 inputs at once), plus interleave index duality (polynomials)
and the referent delta recurrence (Z-linear forms)."""
from sa import core, algebra
from sa.algebra import Bits, BitEval, NotAffine, Poly

RD = "rbx_binary::core::RbxReadExt::"
WR = "rbx_binary::core::RbxWriteExt::"
R = "C01.alg"


def only(nodes, what, fn):
    nodes = list(nodes)
    if len(nodes) != 1:
        raise core.AnchorMissing(f"expected exactly one {what} in {fn.path}, found {len(nodes)}")
    return nodes[0]


def closure_of(fn):
    return only((n for n in core.walk_fn(fn) if n.get("k") == "Closure"), "closure", fn)


def for_loops(fn):
    out = []
    for n in core.walk_fn(fn):
        f = core.as_for(n)
        if f is not None and n.get("k") != "DropTemps":
            out.append(f)
    return out


def assigns(n):
    return [x for x in core.walk(n) if x.get("k") in ("Assign", "AssignOp")]


def pat_binding_lids(p):
    if p["k"] == "Binding":
        return [p["lid"]]
    if p["k"] == "Tuple":
        out = []
        for q in p["pats"]:
            out.extend(pat_binding_lids(q))
        return out
    return []


def write_all_arg(fn):
    """the expression written by the single write_all call of a write_le_* helper."""
    calls = [n for n in core.walk_fn(fn) if n.get("k") == "MethodCall" and core.callee_generic(n) == "std::io::Write::write_all"]
    n = only(calls, "write_all call", fn)
    return n["args"][0]


def ok_result(fn):
    """the expression e of the final Ok(e) of a read_* helper and the lid of the buffer local filled by read_exact."""
    tail = fn.body["b"].get("expr")
    if tail is None:
        raise core.AnchorMissing(f"{fn.path}: no tail expression")
    t = core.strip(tail)
    if not (t.get("k") == "Call" and t["f"].get("def") == "core::result::Result::Ok"):
        raise core.AnchorMissing(f"{fn.path}: tail is not Ok(..)")
    calls = [n for n in core.walk_fn(fn) if n.get("k") == "MethodCall" and core.callee_generic(n) == "std::io::Read::read_exact"]
    n = only(calls, "read_exact call", fn)
    buf = core.strip(n["args"][0])
    if buf.get("res") != "local":
        raise core.AnchorMissing(f"{fn.path}: read_exact target is not a local")
    return t["args"][0], buf["lid"], buf["ty"]


def check_pair(c, prog, name, enc_expr, enc_lid, dec_expr, dec_lid, width, signed, where, kind="int"):
    inst = f"codec:{name}"
    try:
        same, y, z = algebra.compose_identity(prog, enc_expr, enc_lid, dec_expr, dec_lid, width, signed, kind)
    except NotAffine as e:
        c.violation(R, f"{name}|cannot-establish", f"cannot establish decode(encode(x)) = x for {name}: {e}", where, instance=inst)
        return
    if same:
        c.ok(R, inst)
        c.sample({"rule": R, "codec": name, "width": width, "encoded_bits(LSB first, first 4)": " ".join(y.describe().split(" ")[:4]), "verdict": "identity matrix over GF(2) => holds for all 2^%d inputs" % width})
    else:
        bad = [i for i, (a, b) in enumerate(zip(z.bits, Bits.input("x", width).bits)) if a != b]
        c.violation(R, f"{name}|not-identity", f"decode(encode(x)) != x for {name}: result bits {bad[:8]} differ (e.g. bit {bad[0]} = {z.describe().split(' ')[bad[0]]})", where, instance=inst)


def run(c, prog):
    c.rule(R, "scalar codecs: decode(encode(x)) = x for ALL bit patterns, exact GF(2)-affine abstract interpretation; interleave index maps equal as polynomials; delta-coding recurrences compose to the identity under last_w = last_r")
    fns = prog.fns

    # --- zig-zag
    for w in (32, 64):
        t = prog.fn(f"rbx_binary::core::transform_i{w}")
        u = prog.fn(f"rbx_binary::core::untransform_i{w}")
        check_pair(c, prog, f"zigzag_i{w}", t.body, t.params[0]["lid"], u.body, u.params[0]["lid"], w, True, t.sp)

    # --- interleaved arrays: element codec = closure in writer, assignment in reader loop
    for nm, w, signed, kind in (("i32", 32, True, "int"), ("u32", 32, False, "int"), ("f32", 32, False, "float"), ("i64", 64, True, "int")):
        wf = prog.fn(WR + f"write_interleaved_{nm}_array")
        rf = prog.fn(RD + f"read_interleaved_{nm}_array")
        # element codec of the writer: the closure of `values.map(|v| ..)`, or the expression pushed in a `for v in values` loop
        enc_body = enc_lid = None
        clos = [n for n in core.walk_fn(wf) if n.get("k") == "Closure"]
        if len(clos) == 1:
            enc_body, enc_lid = clos[0]["body"], clos[0]["params"][0]["lid"]
        else:
            for pat_w, it_w, body_w, _ in for_loops(wf):
                lw = pat_binding_lids(pat_w)
                pushes = [x for x in core.walk(body_w) if x.get("k") == "MethodCall" and x["m"] in ("push", "push_back", "extend_from_slice") and x["args"]]
                if len(lw) == 1 and len(pushes) == 1:
                    # lets inside the loop body feeding the pushed expression are part of the codec
                    enc_body = {"k": "Block", "b": {"stmts": [st for st in core.strip(body_w)["b"]["stmts"] if st["k"] == "Let"], "expr": pushes[0]["args"][0]}}
                    enc_lid = lw[0]
        if enc_body is None:
            raise core.AnchorMissing(f"{wf.path}: per-element encoder (closure or push loop) not found")
        # element codec of the reader: the single assignment through the output element inside the loop
        loops = for_loops(rf)
        pat, it, body, _ = only(loops, "for loop", rf)
        asg = only(assigns(body), "assignment", rf)
        lids = pat_binding_lids(pat)
        it0 = core.strip(it)
        chain = []
        x0 = it0
        while x0.get("k") == "MethodCall":
            chain.append(x0["m"])
            x0 = core.strip(x0["recv"])
        out_plid = rf.params[1]["lid"]
        lhs = core.strip(asg["l"])
        if "zip" in chain and len(lids) == 2:
            # for (chunk, out) in read.zip(output): the decoded bytes are the first binding, the target the second
            # (either order: `read.zip(output)` or `output.iter_mut().zip(read)` — the target is the binding assigned through)
            if lhs.get("lid") not in lids:
                raise core.AnchorMissing(f"{rf.path}: assignment target is not the output element")
            dec_in = [l_ for l_ in lids if l_ != lhs.get("lid")][0]
        elif "enumerate" in chain and len(lids) == 2 and x0.get("lid") == out_plid:
            # for (index, out) in output.iter_mut().enumerate(): the decoded bytes are `<buffer>[index]`
            if lhs.get("lid") != lids[1]:
                raise core.AnchorMissing(f"{rf.path}: assignment target is not the output element")
            idx_lid = lids[0]

            def dec_in(node, idx_lid=idx_lid):
                node = core.strip(node)
                return node.get("k") == "Index" and core.strip(node["r"]).get("lid") == idx_lid and core.strip(node["l"]).get("res") == "local"
        else:
            raise core.AnchorMissing(f"{rf.path}: the decoding loop is neither `zip(output)` nor `output.iter_mut().enumerate()`")
        check_pair(c, prog, f"interleaved_{nm}", enc_body, enc_lid, asg["r"], dec_in, w, signed, wf.sp, kind)
        # both must go through (read|write)_interleaved_bytes
        for f, callee in ((wf, WR + "write_interleaved_bytes"), (rf, RD + "read_interleaved_bytes")):
            if any(core.callee_generic(n) == callee for n in core.walk_fn(f) if n.get("k") == "MethodCall"):
                c.ok(R, f"uses:{f.path.rsplit('::', 1)[-1]}")
            else:
                c.violation(R, f"{f.path}|no-interleave", f"{f.path} no longer goes through {callee}", f.sp)

    # --- little/big endian scalar helpers
    for nm, w, signed in (("le_u32", 32, False), ("le_u16", 16, False), ("le_i16", 16, True), ("le_f32", 32, False), ("le_f64", 64, False)):
        wf = prog.fn(WR + "write_" + nm)
        rf = prog.fn(RD + "read_" + nm)
        enc = write_all_arg(wf)
        dec, buf_lid, _ = ok_result(rf)
        kind = "float" if "f" in nm.split("_")[1] else "int"
        # float values enter as raw bit patterns: f32::to_le_bytes == to_bits().to_le_bytes()
        check_pair(c, prog, nm, enc, wf.params[1]["lid"], dec, buf_lid, w, signed, wf.sp, kind)
    # u8
    wf = prog.fn(WR + "write_u8")
    rf = prog.fn(RD + "read_u8")
    enc = write_all_arg(wf)      # &[value]
    dec, buf_lid, _ = ok_result(rf)   # buffer[0]
    e = core.strip(enc)
    d = core.strip(dec)
    if e.get("k") == "Array" and len(e["args"]) == 1 and core.strip(e["args"][0]).get("lid") == wf.params[1]["lid"] \
            and d.get("k") == "Index" and core.strip(d["l"]).get("lid") == buf_lid and core.lit_value(d["r"]) == 0:
        c.ok(R, "codec:u8")
    else:
        c.violation(R, "u8|shape", "write_u8/read_u8 are no longer `write_all(&[value])` / `buffer[0]`", wf.sp, instance="codec:u8")
    # bool: both functions evaluated on true and on false (how the byte is computed / tested is free: `as u8`,
    # u8::from, if/else, `!= 0`, `== 1` …): write_bool(b) hands write_u8 the byte n_b, read_bool on n_b gives b, and
    # n_true != n_false
    from sa import sym, wire
    wf = prog.fn(WR + "write_bool")
    rf = prog.fn(RD + "read_bool")

    def fold(t):
        if not isinstance(t, tuple) or not t:
            return t
        t = tuple(fold(x) if isinstance(x, tuple) else x for x in t)
        if t[0] == "cast" and t[2][0] == "c" and isinstance(t[2][1], (bool, int)) and re.match(r"^[iu](8|16|32|64|128|size)$", t[1]):
            return sym.C(int(t[2][1]))
        if t[0] == "op" and t[2][0] == "c" and t[3][0] == "c":
            a, b = t[2][1], t[3][1]
            try:
                return sym.C({"!=": a != b, "==": a == b, "<": a < b, ">": a > b, "<=": a <= b, ">=": a >= b, "&": a & b, "|": a | b, "^": a ^ b}[t[1]])
            except (KeyError, TypeError):
                return t
        if t[0] == "un" and t[1] == "!" and t[2][0] == "c" and isinstance(t[2][1], bool):
            return sym.C(not t[2][1])
        return t
    codes = {}
    ok = True
    why = ""
    for b in (True, False):
        got = []

        def sink(I, n, path, a, env, got=got):
            got.append(I.eval(a[-1], env))
            return sym.var(sym.OK, sym.UNIT)
        try:
            env = {wf.params[0]["lid"]: ("in", "self"), wf.params[1]["lid"]: sym.C(b)}
            wire.run_region(prog, wf.body, env, [(re.compile(r"RbxWriteExt::write_u8$"), sink)], depth=3)
            nb = fold(got[0]) if len(got) == 1 else None
            if nb is None or nb[0] != "c":
                ok, why = False, f"write_bool({b}) does not hand write_u8 one constant byte ({got})"
                break
            codes[b] = nb[1]

            def rd(I, nn, path, a, env, nb=nb):
                return sym.var(sym.OK, nb)
            _, back, _ = wire.run_region(prog, rf.body, {rf.params[0]["lid"]: ("in", "self")}, [(re.compile(r"RbxReadExt::read_u8$"), rd)], depth=3)
            back = fold(back)
            if back != sym.var(sym.OK, sym.C(b)):
                ok, why = False, f"read_bool on the byte {nb[1]} written for {b} gives {sym.term_str(back, 4)}"
                break
        except sym.Unsupported as e:
            ok, why = False, f"outside the symbolic model: {e}"
            break
    if ok and codes.get(True) == codes.get(False):
        ok, why = False, f"true and false are both written as {codes.get(True)}"
    if ok:
        c.ok(R, "codec:bool")
    else:
        c.violation(R, "bool|shape", f"write_bool / read_bool do not round-trip both truth values: {why}", wf.sp, instance="codec:bool")

    # --- interleave index maps
    def index_map(fn, store, pidx=1, depth=2):
        """(position polynomial over canonical i = value index, j = byte index; buffer size polynomial).
        Loop order, iterator-vs-index style and hoisted lets do not matter (algebra.LoopNest); the loops may sit in a
        private helper of the module that is handed the array-of-arrays parameter."""
        param = fn.params[pidx]
        plid = param["lid"]

        def symfn(n):
            if n.get("k") == "MethodCall" and n["m"] == "len" and not n["args"] and core.place_root_lid(n["recv"])[0] == plid and not [p for p in core.place_root_lid(n["recv"])[1] if not p.startswith(".")]:
                return Poly.sym("len")
            if n.get("k") == "Path" and n.get("res") == "ConstParam":
                return Poly.sym("N")
            return None
        ln = algebra.LoopNest(fn, symfn)
        ln.run(fn.body)
        chain_size = None
        for lid_, dims, el, node_ in getattr(ln, "pending_collect", []):
            # a buffer built as one collected iterator chain: element rank = lexicographic rank of the nested indices
            lens = []
            for sname, ln_ in dims:
                if isinstance(ln_, tuple):
                    ln_ = Poly.sym("len") if (ln_[1] == plid and ln_[2] == 0) else (Poly.sym("N") if (ln_[1] == plid and ln_[2] == 1) else None)
                if ln_ is None:
                    raise NotAffine(f"{fn.path}: a dimension of the collected chain has no known length")
                lens.append(ln_)
            pos = Poly.const(0)
            for k_, (sname, _l) in enumerate(dims):
                stride = Poly.const(1)
                for m_ in lens[k_ + 1:]:
                    stride = stride * m_
                pos = pos + Poly.sym(sname) * stride
            ln.moves.append(((lid_, [pos]), el, node_))
            chain_size = Poly.const(1)
            for m_ in lens:
                chain_size = chain_size * m_
        if not ln.moves and depth > 0:
            # no element move here: the loops are in a helper that receives the parameter
            for cl in core.walk_fn(fn):
                if cl.get("k") != "Call":
                    continue
                h = prog.fns.get(core.callee(cl) or "")
                if h is None or h.body is None or h.crate != fn.crate or not h.path.startswith(fn.path.rsplit("::", 2)[0].rsplit("::", 1)[0]):
                    continue
                pos = [k_ for k_, a in enumerate(cl["args"]) if core.place_root_lid(a)[0] == plid and not core.place_root_lid(a)[1]]
                if len(pos) == 1 and pos[0] < len(h.params):
                    poly, hsize = index_map(h, store, pos[0], depth - 1)
                    size = hsize
                    if size is None:
                        for n in core.walk_fn(fn):
                            if n.get("k") == "Call" and n["f"].get("def") == "alloc::vec::from_elem":
                                size = algebra.poly_eval(n["args"][1], ln.env, symfn)
                    return poly, size
        if len(ln.moves) != 1:
            raise core.AnchorMissing(f"{fn.path}: expected exactly one element move inside the loops, found {len(ln.moves)}")
        dst, src, node = ln.moves[0]
        buf, val = (dst, src) if store else (src, dst)
        if val[0] != plid or len(val[1]) != 2 or len(buf[1]) != 1 or buf[0] == plid:
            raise core.AnchorMissing(f"{fn.path}: the element move is not between a flat byte buffer and `{param['name']}[i][j]`")
        syms = []
        for dim, want_hi in ((0, Poly.sym("len")), (1, Poly.sym("N"))):
            ix = val[1][dim]
            if len(ix.d) != 1 or list(ix.d.values()) != [1] or len(list(ix.d)[0]) != 1:
                raise NotAffine(f"{fn.path}: dimension {dim} of `{param['name']}` is indexed by `{ix}`, not by a loop variable")
            sname = list(ix.d)[0][0]
            lo, hi = ln.ranges.get(sname, (None, None))
            if isinstance(hi, tuple):
                hi = want_hi if (hi[1] == plid and hi[2] == dim) else None
            if lo != Poly.const(0) or hi != want_hi:
                raise NotAffine(f"{fn.path}: the loop over dimension {dim} of `{param['name']}` ranges over [{lo}, {hi}), not [0, {want_hi})")
            syms.append(sname)
        if syms[0] == syms[1]:
            raise NotAffine(f"{fn.path}: both dimensions use the same loop variable")
        ren = {syms[0]: "i", syms[1]: "j"}
        poly = Poly({tuple(sorted(ren.get(x, x) for x in k)): v for k, v in buf[1][0].d.items()})
        size = chain_size
        for n in core.walk_fn(fn):
            if n.get("k") == "Call" and n["f"].get("def") == "alloc::vec::from_elem":
                size = algebra.poly_eval(n["args"][1], ln.env, symfn)
        return poly, size

    wf = prog.fn(WR + "write_interleaved_bytes")
    rf = prog.fn(RD + "read_interleaved_bytes")
    try:
        wp, wsize = index_map(wf, True)
        rp, rsize = index_map(rf, False)
        want = Poly.sym("i") + Poly.sym("len") * Poly.sym("j")
        if wp == rp:
            c.ok(R, "interleave:index-duality")
        else:
            c.violation(R, "interleave|index", f"writer stores value i byte j at blob[{wp}] but reader loads it from buffer[{rp}]", wf.sp, instance="interleave:index-duality")
        if wp == want:
            c.ok(R, "interleave:spec-formula")
        else:
            c.violation(R, "interleave|spec", f"interleave position is {wp}, docs/binary.md (byte interleaving) requires j*len + i", wf.sp, instance="interleave:spec-formula")
        nsz = Poly.sym("len") * Poly.sym("N")
        if wsize == nsz and rsize == nsz:
            c.ok(R, "interleave:size")
        else:
            c.violation(R, "interleave|size", f"buffer sizes are writer {wsize} / reader {rsize}, expected len*N", wf.sp, instance="interleave:size")
        c.sample({"rule": R, "interleave": {"writer_index": repr(wp), "reader_index": repr(rp), "buffer": repr(wsize)}})
    except NotAffine as e:
        c.violation(R, "interleave|cannot-establish", f"cannot establish interleave index duality: {e}", wf.sp, instance="interleave:index-duality")

    # --- referent delta coding
    wf = prog.fn(WR + "write_referent_array")
    rf = prog.fn(RD + "read_referent_array")
    try:
        # writer: per element  out = value - last; last = value   — as a `map` closure or as a `for value in values`
        # loop pushing the encoded value; the accumulator is the local initialised to 0
        last_w = None
        for st in core.walk_lets(wf.body):
            if st["pat"].get("k") == "Binding" and core.lit_value(st.get("init", {})) == 0:
                last_w = st["pat"]["lid"]
        if last_w is None:
            raise core.AnchorMissing(f"{wf.path}: accumulator initialised to 0 not found")
        clos = [n for n in core.walk_fn(wf) if n.get("k") == "Closure"]
        if len(clos) == 1:
            vl = clos[0]["params"][0]["lid"]
            env = {vl: Poly.sym("v"), last_w: Poly.sym("Lw")}
            out_w = run_linear(clos[0]["body"], env)
        else:
            lw = [fl for fl in for_loops(wf) if len(pat_binding_lids(fl[0])) == 1]
            pat_w, it_w, body_w, _ = only(lw, "per-value loop", wf)
            vl = pat_binding_lids(pat_w)[0]
            env = {vl: Poly.sym("v"), last_w: Poly.sym("Lw")}
            out_w = run_linear(body_w, env, push_is_value=True)
        if out_w is None:
            raise NotAffine(f"{wf.path}: the per-element encoder yields no value")
        lw_next = env[last_w]
        # reader loop: *r += last; last = *r   (in either statement order that computes the same thing)
        folds = [n for n in core.walk_fn(rf) if n.get("k") == "MethodCall" and n["m"] == "fold" and len(n["args"]) == 2 and core.strip(n["args"][1]).get("k") == "Closure" and len(core.strip(n["args"][1])["params"]) == 2]
        if not for_loops(rf) and len(folds) == 1 and core.lit_value(folds[0]["args"][0]) == 0:
            # `output.iter_mut().fold(0, |last, r| { *r = ..last..; *r })`: the accumulator is the closure's first
            # parameter, its next value is what the closure returns
            cl = core.strip(folds[0]["args"][1])
            acc_l = pat_binding_lids(cl["params"][0]["pat"] if "pat" in cl["params"][0] else cl["params"][0])[0] if "lid" not in cl["params"][0] else cl["params"][0]["lid"]
            rl = pat_binding_lids(cl["params"][1]["pat"] if "pat" in cl["params"][1] else cl["params"][1])[0] if "lid" not in cl["params"][1] else cl["params"][1]["lid"]
            env2 = {rl: out_w, acc_l: Poly.sym("Lr")}
            lr_next = run_linear(cl["body"], env2)
            if lr_next is None:
                raise NotAffine(f"{rf.path}: the fold closure yields no accumulator")
            decoded = env2[rl]
        else:
            pat, it, body, _ = only(for_loops(rf), "for loop", rf)
            rl = pat_binding_lids(pat)[0]
            last_r = None
            for st in core.walk_lets(rf.body):
                if st["pat"].get("k") == "Binding" and core.lit_value(st.get("init", {})) == 0:
                    last_r = st["pat"]["lid"]
            if last_r is None:
                raise core.AnchorMissing(f"{rf.path}: accumulator initialised to 0 not found")
            # input to the reader element is what the writer produced
            env2 = {rl: out_w, last_r: Poly.sym("Lr")}
            run_linear(body, env2)
            decoded = env2[rl]
            lr_next = env2[last_r]
        # under the invariant Lw == Lr
        def subst(p):
            return Poly({tuple("L" if s in ("Lw", "Lr") else s for s in k): v for k, v in merge(p).items()})

        def merge(p):
            d = {}
            for k, v in p.d.items():
                k2 = tuple(sorted("L" if s in ("Lw", "Lr") else s for s in k))
                d[k2] = d.get(k2, 0) + v
            return d
        dec = Poly(merge(decoded))
        if dec == Poly.sym("v") and Poly(merge(lw_next)) == Poly(merge(lr_next)):
            c.ok(R, "referent:delta-recurrence")
            c.sample({"rule": R, "referent_array": {"writer_out": repr(out_w), "writer_last'": repr(lw_next), "reader_out": repr(decoded), "reader_last'": repr(lr_next), "under": "Lw = Lr (both start at 0)"}})
        else:
            c.violation(R, "referent|recurrence", f"delta coding does not compose to the identity: decoded = {dec} (expected v); last' writer {lw_next} vs reader {lr_next}", wf.sp, instance="referent:delta-recurrence")
        # both go through the zig-zag interleaved i32 array
        for f, callee in ((wf, WR + "write_interleaved_i32_array"), (rf, RD + "read_interleaved_i32_array")):
            if any(core.callee_generic(n) == callee for n in core.walk_fn(f) if n.get("k") == "MethodCall"):
                c.ok(R, f"uses:{f.path.rsplit('::', 1)[-1]}")
            else:
                c.violation(R, f"{f.path}|no-i32-array", f"{f.path} no longer goes through {callee}", f.sp)
    except NotAffine as e:
        c.violation(R, "referent|cannot-establish", f"cannot establish the delta-coding recurrence: {e}", wf.sp, instance="referent:delta-recurrence")
    c.floor(R, len(c.rules[R]["instances"]), 20, "codec instances")


def run_linear(body, env, push_is_value=False):
    """Interpret a straight-line block of lets / assignments / += over Poly; returns the block value (or None).
    With push_is_value the argument of the single `<vec>.push(e)` statement is the value."""
    b = core.strip(body)
    if b.get("k") != "Block":
        return algebra.poly_eval(b, env)
    pushed = None
    for st in b["b"]["stmts"]:
        if push_is_value and st["k"] != "Let":
            e0 = core.strip(st["e"])
            if e0.get("k") == "MethodCall" and e0["m"] in ("push", "push_back") and e0["args"]:
                pushed = algebra.poly_eval(e0["args"][0], env)
                continue
        if st["k"] == "Let":
            if st["pat"]["k"] != "Binding" or "init" not in st:
                raise NotAffine("let pattern")
            env[st["pat"]["lid"]] = algebra.poly_eval(st["init"], env)
        else:
            e = st["e"]
            if e.get("k") == "Assign":
                tgt = core.strip(e["l"])
                if tgt.get("res") != "local":
                    raise NotAffine("assignment target")
                env[tgt["lid"]] = algebra.poly_eval(e["r"], env)
            elif e.get("k") == "AssignOp" and e["op"] in ("+=", "-="):
                tgt = core.strip(e["l"])
                if tgt.get("res") != "local":
                    raise NotAffine("assignment target")
                r = algebra.poly_eval(e["r"], env)
                env[tgt["lid"]] = env[tgt["lid"]] + r if e["op"] == "+=" else env[tgt["lid"]] - r
            else:
                raise NotAffine(f"statement {e.get('k')}")
    if "expr" in b["b"]:
        e0 = core.strip(b["b"]["expr"])
        if push_is_value and e0.get("k") == "MethodCall" and e0["m"] in ("push", "push_back") and e0["args"]:
            return algebra.poly_eval(e0["args"][0], env)
        return algebra.poly_eval(b["b"]["expr"], env)
    return pushed
